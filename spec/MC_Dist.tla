------------------------------- MODULE MC_Dist -------------------------------
(***************************************************************************)
(* C19.  TLC enumerates pairs of grid profiles on a game in which player   *)
(* one has a 2-action and a 3-action infoset and player two has either no  *)
(* multi-action infoset at all or one 2-action infoset (and the same with  *)
(* the players exchanged, so that either player may have fewer, more or no *)
(* infosets; one infoset also against profiles that differ from (1/2, 1/2) *)
(* by 2.5e-4, 2.5e-7, 1.25e-10), exponents                                    *)
(* p in {1/2, 1, 3/2, 2, 3, 10} plus the non-positive 0 and -1.  For each  *)
(* pair it states the facts the property demands of distance(s, t, p)      *)
(* (which players' strategies coincide, whether the call must panic) and   *)
(* checks the same facts on a reference distance (half the sum of          *)
(* |x-y|^p over an infoset, averaged over infosets) for integer p.         *)
(***************************************************************************)
EXTENDS Strategy, Json, IOUtils

MaxDen == atoi(IOEnv.MAXDEN)

RECURSIVE Compositions(_, _)
Compositions(n, d) ==
  IF n = 1 THEN {<<d>>}
  ELSE UNION {{<<a>> \o c : c \in Compositions(n - 1, d - a)} : a \in 0..d}
Grid(n) == UNION {Compositions(n, d) : d \in 1..MaxDen}
Reduced(n) == {w \in Grid(n) : \A j \in 2..SumSeq(w) : ~(\A k \in 1..n : w[k] % j = 0)}

Exponents == {<<1, 2>>, <<1, 1>>, <<3, 2>>, <<2, 1>>, <<3, 1>>, <<10, 1>>, <<0, 1>>, <<-1, 1>>}

VARIABLES a1, b1, a2, b2, two, c1, c2, p, swap, done
vars == <<a1, b1, a2, b2, two, c1, c2, p, swap, done>>

\* profiles that differ by little: positivity must not depend on the size of the difference (|x-y|^p is far above
\* the smallest positive double for these: at most 1e-66)
Near == {<<1000, 1001>>, <<1000000, 1000001>>, <<1000000000, 1000000001>>}
Init == /\ a1 \in Reduced(2) /\ a2 \in Reduced(2) \cup Near
        /\ b1 \in Reduced(3) /\ b2 \in {<<1, 0, 0>>, <<0, 1, 1>>, <<1, 1, 2>>, <<0, 0, 1>>}
        /\ two \in BOOLEAN
        /\ IF two THEN c1 \in {<<1, 0>>, <<1, 1>>} /\ c2 \in {<<1, 0>>, <<0, 1>>, <<1, 3>>}
                  ELSE c1 = <<>> /\ c2 = <<>>
        /\ p \in Exponents
        /\ swap \in BOOLEAN      \* TRUE: the two sides exchange players (player two has the MORE infosets)
        /\ done = FALSE

S1 == <<Normalise(a1), Normalise(b1)>>
T1 == <<Normalise(a2), Normalise(b2)>>
S2 == IF two THEN <<Normalise(c1)>> ELSE <<>>
T2 == IF two THEN <<Normalise(c2)>> ELSE <<>>

RAbs(x) == IF x[1] < 0 THEN RNeg(x) ELSE x

\* reference distance for a natural exponent k >= 1
InfoDist(v, w, k) == RMul(<<1, 2>>, RSumSeq([j \in 1..Len(v) |-> RPow(RAbs(RSub(v[j], w[j])), k)]))
RefDist(s, t, k) == IF Len(s) = 0 THEN Zero
                    ELSE RDiv(RSumSeq([i \in 1..Len(s) |-> InfoDist(s[i], t[i], k)]), R(Len(s)))

IntegerP == p[2] = 1 /\ p[1] >= 1
Ref(s, t) == IF IntegerP /\ p[1] <= 3 THEN RefDist(s, t, p[1]) ELSE Poison

Sw(x) == IF swap THEN <<x[2], x[1]>> ELSE x
Next == /\ ~done
        /\ done' = TRUE
        /\ UNCHANGED <<a1, b1, a2, b2, two, c1, c2, p, swap>>
        /\ PrintT(<<"OUT", 0, ToJson([
              s |-> Sw(<<<<a1, b1>>, IF two THEN <<c1>> ELSE <<>>>>),
              t |-> Sw(<<<<a2, b2>>, IF two THEN <<c2>> ELSE <<>>>>),
              p |-> p,
              panics |-> p[1] <= 0,
              equal |-> Sw(<<SameStrategy(S1, T1), SameStrategy(S2, T2)>>),
              ref |-> Sw(<<Ref(S1, T1), Ref(S2, T2)>>)])>>)

Spec == Init /\ [][Next]_vars

\* the demanded facts hold of the reference distance (integer exponents 1..3)
RefOK(s, t) == LET d == Ref(s, t) e == Ref(t, s)
               IN IsPoison(d) \/ (/\ d[1] >= 0 /\ RLe(d, One)
                                  /\ d = e
                                  /\ (d = Zero <=> SameStrategy(s, t)))
InvRef == RefOK(S1, T1) /\ RefOK(S2, T2)
===============================================================================
