----------------------------- MODULE MC_Transform -----------------------------
(***************************************************************************)
(* C12 on the exact model.  For every case written by `harness gen xform`  *)
(* - (game, profile, transformation, parameter tuple, budget T <= 2) -     *)
(* TLC builds the alternative presentation with Transform.tla, evaluates   *)
(* both presentations on corresponding profiles (Game.tla) and runs the    *)
(* documented unsampled algorithm (Cfr.tla) on both, and CHECKS the        *)
(* theorems of C12 on the exact values (EvalRelated, SolveRelated).  The   *)
(* transformed tree, the corresponding profile and the exact values are    *)
(* printed; `harness replay xform` feeds both presentations to the real    *)
(* code.                                                                   *)
(***************************************************************************)
EXTENDS Cfr, Transform, Json, IOUtils

Cases == ndJsonDeserialize(IOEnv.CASES)

VARIABLES i, done
vars == <<i, done>>
Init == i \in 1..Len(Cases) /\ done = FALSE

ParOf(x) == IF x[1] = "q" THEN Q(Frac(x[2], x[3])) ELSE IF x[1] = "pinf" THEN PInf ELSE NInf
ParamsOf(c) == Params(ParOf(c.par.a), ParOf(c.par.b), ParOf(c.par.g), ParOf(c.par.w))
XOf(c) == [kind |-> c.xf.kind, nodes |-> {c.xf.nodes[j] : j \in 1..Len(c.xf.nodes)}, c |-> c.xf.c, pl |-> c.xf.pl, name |-> c.xf.name]

NoDraws(T) == [k \in 1..T |-> 0]
AllExact(par, T) == \A t \in 1..T : Exact(par, t)
RECURSIVE AnyTie(_, _, _, _)
AnyTie(tree, par, T, k) ==
  IF k = 0 THEN FALSE
  ELSE AnyTie(tree, par, T, k - 1)
         \/ IterTie(tree, Run(tree, "Full", par, T, NoDraws(T), k - 1), "Full", k, par, 0)

Solve(tree, par, T) ==
  IF ~AllExact(par, T) THEN [status |-> "symbolic"]
  ELSE LET st == Run(tree, "Full", par, T, NoDraws(T), T)
       IN IF StatePoisoned(st) THEN [status |-> "poisoned"]
          ELSE LET b1 == IF T = 0 THEN Zero ELSE BoundOf(st, 1, T)
                   b2 == IF T = 0 THEN Zero ELSE BoundOf(st, 2, T)
               IN IF IsPoison(b1) \/ IsPoison(b2) THEN [status |-> "poisoned"]
                  ELSE [status |-> "ok", tie |-> AnyTie(tree, par, T, T), avg |-> AverageProfile(st),
                        bounds |-> <<b1, b2>>]

Result(c) ==
  LET x == XOf(c)
      t2 == Present(c.tree, x)
      p2 == XProfile(c.tree, c.prof, x)
      e == Evaluate(c.tree, c.prof)
      e2 == Evaluate(t2, p2)
      s == Solve(c.tree, ParamsOf(c), c.T)
      s2 == Solve(t2, ParamsOf(c), c.T)
  IN [tree2 |-> t2, prof2 |-> p2, eval |-> e, eval2 |-> e2, solve |-> s, solve2 |-> s2,
      eval_related |-> (e.poisoned \/ e2.poisoned \/ EvalRelated(x, e, e2)),
      solve_related |-> (s.status # "ok" \/ s2.status # "ok" \/ s.tie \/ s2.tie
                           \/ SolveRelated(c.tree, x, s.avg, s2.avg, s.bounds, s2.bounds))]

Next == /\ ~done
        /\ done' = TRUE
        /\ UNCHANGED i
        /\ LET res == Result(Cases[i])
           IN /\ Assert(res.eval_related, <<"C12 EvalRelated fails in the model", Cases[i].id>>)
              /\ Assert(res.solve_related, <<"C12 SolveRelated fails in the model", Cases[i].id>>)
              /\ PrintT(<<"OUT", Cases[i].id, ToJson(res)>>)
Spec == Init /\ [][Next]_vars
================================================================================
