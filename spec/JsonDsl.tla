------------------------------- MODULE JsonDsl -------------------------------
(***************************************************************************)
(* The JSON game description language of the command-line tool (README,    *)
(* "JSON Format"; src/json.rs): what a JSON document MEANS as a raw tree   *)
(* (Game.tla) and which documents are not in the language.                 *)
(*                                                                         *)
(*   node     ::= terminal || chance || player                             *)
(*   terminal ::= { "terminal": <number> }                                 *)
(*   chance   ::= { "chance": { "infoset"?: <string>,                      *)
(*                   "outcomes": { "<name>": { "prob": <number>,           *)
(*                                             "state": node }, ... } } }  *)
(*   player   ::= { "player": { "player_one": <bool>, "infoset": <string>, *)
(*                   "actions": { "<name>": node, ... } } }                *)
(*                                                                         *)
(* A JSON value travels as a tagged record (integers and strings only):    *)
(*   [t |-> "num", n |-> Int, d |-> Int]    the number n / d               *)
(*   [t |-> "str", s |-> STRING]   [t |-> "bool", b |-> 0 | 1]             *)
(*   [t |-> "null"]                [t |-> "arr", e |-> << value, ... >>]   *)
(*   [t |-> "obj", f |-> << [k |-> STRING, v |-> value], ... >>]           *)
(* with the members of an object IN THE ORDER WRITTEN, duplicates kept.    *)
(*                                                                         *)
(* Meaning.  The members of a JSON object are unordered, so the children   *)
(* of a node are taken in the byte order of their names (that every node   *)
(* of an information set lists its actions in the same order is a rule of  *)
(* the library contract, and a document must not break it by writing them  *)
(* in another order).  Payoffs and probabilities are the numbers written.  *)
(*                                                                         *)
(* Not in the language (category json-error): a node that is not an object *)
(* with exactly one of the three member names; a member of the wrong JSON  *)
(* type; a missing mandatory member; a member listed in the grammar given  *)
(* twice.                                                                  *)
(*                                                                         *)
(* Left open by the documentation and accepted by the code as it is (the   *)
(* deviation is named, `Lenient`): members the grammar does not list are   *)
(* ignored; "infoset": null at a chance node means "no infoset"; when an   *)
(* action / outcome name is repeated the last one counts (every occurrence *)
(* must still be a well-formed node).  For such documents rejection as     *)
(* json-error would also be in accordance with the documentation: the      *)
(* checks admit both, but if the document is solved it must be solved with *)
(* this meaning.  A JSON array in the place of one of the inner objects    *)
(* (chance, player, outcome) is serde's positional form of the same        *)
(* members, in the order of the grammar above: [infoset-or-null, outcomes],*)
(* [player_one, infoset, actions], [prob, state]; the array must have      *)
(* exactly that many elements (`JPos`).  Also open: not in the grammar.    *)
(***************************************************************************)
EXTENDS Integers, Sequences, FiniteSets, TLC

\* ------------------------------------------------------------------ byte order of names
\* the names the documents of the bounded universe use, in byte order (the specification's statement of
\* the order on this alphabet: upper case before lower case, digits before letters, a prefix before its
\* extensions, "10" before "9")
NameOrder == <<"", " x", "10", "9", "A", "B", "Z", "_", "a", "a0", "aa", "ab", "b", "o", "z", "~">>
JRank(s) == CHOOSE i \in 1..Len(NameOrder) : NameOrder[i] = s
JKnownName(s) == \E i \in 1..Len(NameOrder) : NameOrder[i] = s

\* ------------------------------------------------------------------ objects
JOcc(v, key) == {j \in 1..Len(v.f) : v.f[j].k = key}
JGet(v, key) == v.f[CHOOSE j \in JOcc(v, key) : TRUE].v
JOnce(v, keys) == \A key \in keys : Cardinality(JOcc(v, key)) <= 1
JHas(v, keys) == \A key \in keys : JOcc(v, key) # {}
\* the members that count: the last occurrence of every name, in byte order of the names
JLast(v) == {j \in 1..Len(v.f) : \A m \in (j + 1)..Len(v.f) : v.f[m].k # v.f[j].k}
JSorted(v) == SortSeq(SelectSeq([j \in 1..Len(v.f) |-> [j |-> j, k |-> v.f[j].k]], LAMBDA e : e.j \in JLast(v)),
                      LAMBDA x, y : JRank(x.k) < JRank(y.k))

JErr == [ok |-> FALSE]
\* the positional form of an inner object: the members of `keys` in this order, nothing missing, nothing more
JPos(x, keys) == IF x.t # "arr" THEN x
                 ELSE IF Len(x.e) # Len(keys) THEN [t |-> "bad"]
                 ELSE [t |-> "obj", f |-> [j \in 1..Len(keys) |-> [k |-> keys[j], v |-> x.e[j]]]]
JOk(t) == [ok |-> TRUE, t |-> t]

\* ------------------------------------------------------------------ meaning
\* payoffs are multiplied by `scale`, probabilities by `wscale` (the raw trees of Game.tla carry integers)
RECURSIVE JState(_, _, _), JActs(_, _, _), JOuts(_, _, _)
JState(v, scale, wscale) ==
  IF v.t # "obj" THEN JErr
  ELSE IF Len(v.f) # 1 THEN JErr
  ELSE LET key == v.f[1].k
           x == IF v.f[1].k = "chance" THEN JPos(v.f[1].v, <<"infoset", "outcomes">>)
                ELSE IF v.f[1].k = "player" THEN JPos(v.f[1].v, <<"player_one", "infoset", "actions">>)
                ELSE v.f[1].v
       IN IF key = "terminal" THEN
            (IF x.t = "num" THEN JOk([k |-> "T", pay |-> (x.n * scale) \div x.d]) ELSE JErr)
          ELSE IF key = "chance" THEN
            (IF x.t # "obj" THEN JErr
             ELSE IF ~JOnce(x, {"infoset", "outcomes"}) \/ ~JHas(x, {"outcomes"}) THEN JErr
             ELSE LET inf == IF JOcc(x, "infoset") = {} THEN [t |-> "null"] ELSE JGet(x, "infoset")
                      outs == JOuts(JGet(x, "outcomes"), scale, wscale)
                  IN IF inf.t \notin {"null", "str"} \/ ~outs.ok THEN JErr
                     ELSE JOk([k |-> "C", ci |-> IF inf.t = "null" THEN "none" ELSE inf.s, kids |-> outs.t]))
          ELSE IF key = "player" THEN
            (IF x.t # "obj" THEN JErr
             ELSE IF ~JOnce(x, {"player_one", "infoset", "actions"}) \/ ~JHas(x, {"player_one", "infoset", "actions"}) THEN JErr
             ELSE LET po == JGet(x, "player_one")
                      inf == JGet(x, "infoset")
                      acts == JActs(JGet(x, "actions"), scale, wscale)
                  IN IF po.t # "bool" \/ inf.t # "str" \/ ~acts.ok THEN JErr
                     ELSE JOk([k |-> "P", pl |-> IF po.b = 1 THEN 1 ELSE 2, info |-> inf.s, kids |-> acts.t]))
          ELSE JErr

JActs(v, scale, wscale) ==
  IF v.t # "obj" THEN JErr
  ELSE LET sub == [j \in 1..Len(v.f) |-> JState(v.f[j].v, scale, wscale)]
       IN IF \E j \in 1..Len(v.f) : ~sub[j].ok THEN JErr
          ELSE LET order == JSorted(v)
               IN JOk([m \in 1..Len(order) |-> [a |-> order[m].k, t |-> sub[order[m].j].t]])

JOutcome(e) == JPos(e, <<"prob", "state">>)
JOutcomeOK(e) == LET o == JOutcome(e)
                 IN /\ o.t = "obj"
                    /\ JOnce(o, {"prob", "state"}) /\ JHas(o, {"prob", "state"})
                    /\ JGet(o, "prob").t = "num"
JOuts(v, scale, wscale) ==
  IF v.t # "obj" THEN JErr
  ELSE IF \E j \in 1..Len(v.f) : ~JOutcomeOK(v.f[j].v) THEN JErr
  ELSE LET sub == [j \in 1..Len(v.f) |-> JState(JGet(JOutcome(v.f[j].v), "state"), scale, wscale)]
       IN IF \E j \in 1..Len(v.f) : ~sub[j].ok THEN JErr
          ELSE LET order == JSorted(v)
               IN JOk([m \in 1..Len(order) |->
                         LET p == JGet(JOutcome(v.f[order[m].j].v), "prob")
                         IN [w |-> (p.n * wscale) \div p.d, t |-> sub[order[m].j].t]])

\* ------------------------------------------------------------------ the documented grammar, exactly
\* no member the grammar does not list, no name twice, no null
JNoRepeat(v) == \A i, j \in 1..Len(v.f) : i # j => v.f[i].k # v.f[j].k
JOnly(v, keys) == \A j \in 1..Len(v.f) : v.f[j].k \in keys
RECURSIVE JStrict(_)
JStrict(v) ==
  /\ v.t = "obj" /\ Len(v.f) = 1
  /\ LET key == v.f[1].k
         x == v.f[1].v
     IN IF key = "terminal" THEN x.t = "num"
        ELSE IF key = "chance" THEN
          /\ x.t = "obj" /\ JNoRepeat(x) /\ JOnly(x, {"infoset", "outcomes"}) /\ JHas(x, {"outcomes"})
          /\ (JOcc(x, "infoset") # {} => JGet(x, "infoset").t = "str")
          /\ LET o == JGet(x, "outcomes")
             IN /\ o.t = "obj" /\ JNoRepeat(o)
                /\ \A j \in 1..Len(o.f) :
                      LET e == o.f[j].v
                      IN /\ e.t = "obj" /\ JNoRepeat(e) /\ JOnly(e, {"prob", "state"}) /\ JHas(e, {"prob", "state"})
                         /\ JGet(e, "prob").t = "num" /\ JStrict(JGet(e, "state"))
        ELSE IF key = "player" THEN
          /\ x.t = "obj" /\ JNoRepeat(x) /\ JOnly(x, {"player_one", "infoset", "actions"})
          /\ JHas(x, {"player_one", "infoset", "actions"})
          /\ JGet(x, "player_one").t = "bool" /\ JGet(x, "infoset").t = "str"
          /\ LET a == JGet(x, "actions")
             IN a.t = "obj" /\ JNoRepeat(a) /\ \A j \in 1..Len(a.f) : JStrict(a.f[j].v)
        ELSE FALSE

\* every document of the documented grammar has a meaning (TLC checks this on the universe of MC_JsonDsl)
StrictHasMeaning(v) == JStrict(v) => JState(v, 1, 1).ok
\* the order in which the members are written does not matter: stated as an invariant over permuted documents in
\* MC_JsonDsl (Meaning(perm(v)) = Meaning(v))
=============================================================================
