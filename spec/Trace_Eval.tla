------------------------------- MODULE Trace_Eval -------------------------------
(***************************************************************************)
(* Trace validation of the evaluator (C01, impl -> spec).  `harness record *)
(* eval` evaluates seeded (game, profile) pairs with get_info() and the    *)
(* event hook on; one `eval` event per evaluation carries the raw tree,    *)
(* the profile and, for each deviator, the ORDER in which the real code    *)
(* resolved infosets, the value it assigned to each and the final value.   *)
(* The event is accepted iff that run is a behaviour of Eval.tla: every    *)
(* infoset was resolved at a moment at which Pop was enabled (nothing      *)
(* pending at it, nodes recorded, not yet resolved), received the value    *)
(* Pop assigns, nothing remained ready at the end, and the final value is  *)
(* the one Finish computes - hence (MatchesDeclarative, model-checked in   *)
(* MC_EvalOp) the best-response value.                                     *)
(***************************************************************************)
EXTENDS Eval, Json, IOUtils

Rec == ndJsonDeserialize(IOEnv.TRACE)

VARIABLES l
IsEvent(e) == l <= Len(Rec) /\ Rec[l].e = e /\ l' = l + 1
TraceInit == l = 1

\* values are logged as exact rationals [n, d]; [0, 0] = not reconstructible (then not compared)
Known(x) == x[2] # 0
Same(x, r) == ~Known(x) \/ IsPoison(r) \/ <<x[1], x[2]>> = r

RECURSIVE Replay(_, _, _, _, _, _)
\* pops: sequence of [info, value]; returns the final state or a record with ok = FALSE
Replay(g, sigma, d, ev, pops, k) ==
  IF k > Len(pops) THEN [ok |-> TRUE, ev |-> ev]
  ELSE IF pops[k].info \notin Ready(g, d, ev) THEN [ok |-> FALSE, ev |-> ev]
  ELSE LET nx == EvPop(g, sigma, d, ev, pops[k].info)
       IN IF ~Same(pops[k].value, nx.value[pops[k].info]) THEN [ok |-> FALSE, ev |-> nx]
          ELSE Replay(g, sigma, d, nx, pops, k + 1)

SideOK(g, sigma, d, side) ==
  LET r == Replay(g, sigma, d, EvInit(g, sigma, d), side.pops, 1)
  IN /\ r.ok
     /\ Ready(g, d, r.ev) = {}
     /\ LET fin == EvFinish(g, sigma, d, r.ev)
        IN ~fin.badread /\ Same(side.result, fin.result)

EvalOK(r) ==
  LET g == Build(r.tree)
      sigma == Dense(g, r.prof)
  IN g.err = "none" /\ SideOK(g, sigma, 1, r.one) /\ SideOK(g, sigma, 2, r.two)

EvalEv == IsEvent("eval") /\ EvalOK(Rec[l]) = TRUE
TraceNext == EvalEv
TraceSpec == TraceInit /\ [][TraceNext]_l

TraceAccepted ==
  LET d == TLCGet("stats").diameter
  IN IF d - 1 = Len(Rec) THEN TRUE
     ELSE /\ PrintT(<<"REJECT", d, ToJson(Rec[d])>>)
          /\ FALSE
=================================================================================
