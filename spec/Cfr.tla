---------------------------------- MODULE Cfr ----------------------------------
(***************************************************************************)
(* Discounted counterfactual regret minimisation as documented (C08): the  *)
(* textbook algorithm, written from the documentation and the papers       *)
(* (Zinkevich et al. 2007; Lanctot et al. 2009; Brown & Sandholm 2019),    *)
(* over exact rationals, on raw trees (Game.tla).                          *)
(*                                                                         *)
(* State of a solve: st[p][info] = [r, s, cur] - cumulative regret,        *)
(* cumulative (average) strategy and current strategy of every             *)
(* multi-action infoset, each a sequence of rationals.                     *)
(*                                                                         *)
(* One iteration t:                                                        *)
(*   Full / Sampled   one pass updating both players (counterfactual       *)
(*                    regret weighted by opponent x chance reach, average  *)
(*                    strategy weighted by own reach; Sampled follows one  *)
(*                    drawn outcome per chance infoset, importance weight  *)
(*                    1), then every infoset of player one, then of player *)
(*                    two, is advanced;                                    *)
(*   External         a pass for player one (all own actions, one drawn    *)
(*                    action per opponent infoset and one drawn outcome    *)
(*                    per chance infoset, no reach weighting; the          *)
(*                    opponent's current strategy is added to its average  *)
(*                    at every visit), player one advanced, then the same  *)
(*                    for player two against player one's NEW strategy.    *)
(*   advance(t)       next strategy by regret matching on the undiscounted *)
(*                    sums, positive / negative regrets multiplied by      *)
(*                    t^a/(t^a+1) / t^b/(t^b+1), average multiplied by     *)
(*                    (t/(t+1))^g  [External, player one: ((t-1)/t)^g, its *)
(*                    first accumulation happens in the second pass],      *)
(*                    reported bound 2 max(max regret, 0) / t.             *)
(*                                                                         *)
(* Parameters: [a, b, g, w], each [t |-> "q" | "pinf" | "ninf", v |-> rational].  *)
(* Where an exponent is not an integer the discount factor is irrational;  *)
(* the model then keeps it symbolic: every emitted number is [c, atom],    *)
(* meaning c times the value of atom in {"one", "pos", "neg", "avg"}       *)
(* (positive / negative regret discount, average discount of this step),   *)
(* which the harness evaluates with the documented formula.                *)
(***************************************************************************)
EXTENDS Sampler, Game

\* ------------------------------------------------------------ parameters
Q(v) == [t |-> "q", v |-> v]
PInf == [t |-> "pinf", v |-> Zero]
NInf == [t |-> "ninf", v |-> Zero]
Params(a, b, g, w) == [a |-> a, b |-> b, g |-> g, w |-> w]

\* the documented presets; omitting parameters means dcfr
Vanilla   == Params(PInf, PInf, Q(Zero), Q(Zero))
Lcfr      == Params(Q(One), Q(One), Q(One), PInf)
CfrPlus   == Params(PInf, NInf, Q(R(2)), PInf)
Dcfr      == Params(Q(<<3, 2>>), Q(Zero), Q(R(2)), PInf)
DcfrPrune == Params(Q(<<3, 2>>), Q(<<1, 2>>), Q(R(2)), PInf)
Default   == Dcfr

IsInt(e) == e.t = "q" /\ e.v[2] = 1

\* t^e / (t^e + 1); 0, 1/2, 1 for e = -inf, 0, +inf.  [ok |-> FALSE] when irrational.
Disc(t, e) ==
  IF e.t = "ninf" THEN [ok |-> TRUE, v |-> Zero]
  ELSE IF e.t = "pinf" THEN [ok |-> TRUE, v |-> One]
  ELSE IF e.v[1] = 0 \/ t = 1 THEN [ok |-> TRUE, v |-> <<1, 2>>]
  ELSE IF IsInt(e) /\ e.v[1] > 0
       THEN LET x == RPow(R(t), e.v[1]) IN [ok |-> TRUE, v |-> RDiv(x, RAdd(x, One))]
  ELSE IF IsInt(e)
       THEN LET x == RPow(R(t), -e.v[1]) IN [ok |-> TRUE, v |-> RDiv(One, RAdd(x, One))]
  ELSE [ok |-> FALSE, v |-> Zero]

\* (t / (t + 1))^g, the factor that realises weight t^g for iteration t's strategy
AvgDisc(t, g) ==
  IF g.v[1] = 0 THEN [ok |-> TRUE, v |-> One]
  ELSE IF t = 0 THEN [ok |-> TRUE, v |-> Zero]
  ELSE IF IsInt(g) THEN [ok |-> TRUE, v |-> RPow(Frac(t, t + 1), g.v[1])]
  ELSE [ok |-> FALSE, v |-> Zero]

\* --------------------------------------------------------------- state
\* tch ("touched"): has this infoset ever received a regret contribution with a non-zero weight?
\* Until then its regrets are structural zeros (exactly zero in floating point too); afterwards a
\* regret that is exactly zero here is rounding noise there - see Fragile.
InitInfo(n) == [r |-> [j \in 1..n |-> Zero], s |-> [j \in 1..n |-> Zero],
                cur |-> [j \in 1..n |-> Frac(1, n)], tch |-> FALSE]
InitState(t) == [p \in 1..2 |-> [i \in InfoNames(t, p) |-> InitInfo(NumActs(t, p, i))]]

ZeroVec(n) == [j \in 1..n |-> Zero]
VAdd(x, y) == [j \in 1..Len(x) |-> RAdd(x[j], y[j])]
RECURSIVE Concat(_)
Concat(ss) == IF ss = <<>> THEN <<>> ELSE Head(ss) \o Concat(Tail(ss))
Dot(x, y) == RSumSeq([j \in 1..Len(x) |-> RMul(x[j], y[j])])

\* ---------------------------------------------------------- draws
\* dr: the draws of one iteration: [c |-> [label |-> <<u_half1, u_half2>>],
\*                                  p |-> <<[info |-> u], [info |-> u]>>]   (u rational in [0,1))
ChanceProbs(n) == [j \in 1..Len(n.kids) |-> ChanceProb(n, j)]
ChanceDraw(n, dr, half) == Sample(ChanceProbs(n), dr.c[n.ci][half])
PlayerDraw(n, st, dr) == Sample(st[n.pl][n.info].cur, dr.p[n.pl][n.info])

\* ------------------------------------------------- Full and Sampled pass
Multi(n) == n.k = "P" /\ Len(n.kids) >= 2
Cur(st, n) == st[n.pl][n.info].cur

\* value to player one under the current strategies
RECURSIVE VVal(_, _, _, _)
VVal(n, st, sampled, dr) ==
  IF n.k = "T" THEN R(n.pay)
  ELSE IF n.k = "C" THEN
    IF Len(n.kids) = 1 THEN VVal(n.kids[1].t, st, sampled, dr)
    ELSE IF sampled THEN VVal(n.kids[ChanceDraw(n, dr, 1)].t, st, sampled, dr)
    ELSE RSumSeq([j \in 1..Len(n.kids) |-> RMul(ChanceProb(n, j), VVal(n.kids[j].t, st, sampled, dr))])
  ELSE IF ~Multi(n) THEN VVal(n.kids[1].t, st, sampled, dr)
  ELSE Dot(Cur(st, n), [j \in 1..Len(n.kids) |-> VVal(n.kids[j].t, st, sampled, dr)])

\* contributions [pl, info, dr, ds] of every decision node visited
RECURSIVE VContrib(_, _, _, _, _, _)
VContrib(n, st, sampled, dr, pc, pp) ==
  IF n.k = "T" THEN <<>>
  ELSE IF n.k = "C" THEN
    IF Len(n.kids) = 1 THEN VContrib(n.kids[1].t, st, sampled, dr, pc, pp)
    ELSE IF sampled THEN VContrib(n.kids[ChanceDraw(n, dr, 1)].t, st, sampled, dr, pc, pp)
    ELSE Concat([j \in 1..Len(n.kids) |->
           VContrib(n.kids[j].t, st, sampled, dr, RMul(pc, ChanceProb(n, j)), pp)])
  ELSE IF ~Multi(n) THEN VContrib(n.kids[1].t, st, sampled, dr, pc, pp)
  ELSE LET cur == Cur(st, n)
           own == pp[n.pl]
           oth == pp[Other(n.pl)]
           mult == IF n.pl = 1 THEN RMul(pc, oth) ELSE RNeg(RMul(pc, oth))
           u == [j \in 1..Len(n.kids) |-> VVal(n.kids[j].t, st, sampled, dr)]
           ex == Dot(cur, u)
           me == [pl |-> n.pl, info |-> n.info, w |-> mult,
                  dr |-> [j \in 1..Len(u) |-> RMul(mult, RSub(u[j], ex))],
                  ds |-> [j \in 1..Len(u) |-> RMul(own, cur[j])]]
       IN <<me>> \o Concat([j \in 1..Len(n.kids) |->
             VContrib(n.kids[j].t, st, sampled, dr, pc, [pp EXCEPT ![n.pl] = RMul(@, cur[j])])])

\* ------------------------------------------------------- External pass
\* value to the updating player q
RECURSIVE EVal(_, _, _, _, _)
EVal(n, st, q, dr, half) ==
  IF n.k = "T" THEN IF q = 1 THEN R(n.pay) ELSE R(-n.pay)
  ELSE IF n.k = "C" THEN
    IF Len(n.kids) = 1 THEN EVal(n.kids[1].t, st, q, dr, half)
    ELSE EVal(n.kids[ChanceDraw(n, dr, half)].t, st, q, dr, half)
  ELSE IF ~Multi(n) THEN EVal(n.kids[1].t, st, q, dr, half)
  ELSE IF n.pl = q THEN Dot(Cur(st, n), [j \in 1..Len(n.kids) |-> EVal(n.kids[j].t, st, q, dr, half)])
  ELSE EVal(n.kids[PlayerDraw(n, st, dr)].t, st, q, dr, half)

RECURSIVE EContrib(_, _, _, _, _)
EContrib(n, st, q, dr, half) ==
  IF n.k = "T" THEN <<>>
  ELSE IF n.k = "C" THEN
    IF Len(n.kids) = 1 THEN EContrib(n.kids[1].t, st, q, dr, half)
    ELSE EContrib(n.kids[ChanceDraw(n, dr, half)].t, st, q, dr, half)
  ELSE IF ~Multi(n) THEN EContrib(n.kids[1].t, st, q, dr, half)
  ELSE IF n.pl = q THEN
    LET cur == Cur(st, n)
        u == [j \in 1..Len(n.kids) |-> EVal(n.kids[j].t, st, q, dr, half)]
        ex == Dot(cur, u)
        me == [pl |-> q, info |-> n.info, w |-> One, dr |-> [j \in 1..Len(u) |-> RSub(u[j], ex)],
               ds |-> ZeroVec(Len(u))]
    IN <<me>> \o Concat([j \in 1..Len(n.kids) |-> EContrib(n.kids[j].t, st, q, dr, half)])
  ELSE <<[pl |-> n.pl, info |-> n.info, w |-> Zero, dr |-> ZeroVec(Len(n.kids)), ds |-> Cur(st, n)]>>
         \o EContrib(n.kids[PlayerDraw(n, st, dr)].t, st, q, dr, half)

\* ---------------------------------------------------- applying a pass
RECURSIVE SumField(_, _, _, _, _)
SumField(cs, p, i, acc, f) ==
  IF cs = <<>> THEN acc
  ELSE LET c == Head(cs)
       IN SumField(Tail(cs), p, i,
                   IF c.pl = p /\ c.info = i THEN VAdd(acc, IF f = "dr" THEN c.dr ELSE c.ds) ELSE acc, f)

TouchedBy(cs, p, i) == \E k \in 1..Len(cs) : cs[k].pl = p /\ cs[k].info = i /\ cs[k].w # Zero
Apply(st, cs) ==
  [p \in 1..2 |-> [i \in DOMAIN st[p] |->
     [st[p][i] EXCEPT !.r = SumField(cs, p, i, @, "dr"), !.s = SumField(cs, p, i, @, "ds"),
                      !.tch = @ \/ TouchedBy(cs, p, i)]]]


\* -------------------------------------------------------------- advance
Positive(v) == {j \in 1..Len(v) : v[j][1] > 0}
ArgMax(v) == {j \in 1..Len(v) : \A k \in 1..Len(v) : RLe(v[k], v[j])}
ArgMin(v) == {j \in 1..Len(v) : \A k \in 1..Len(v) : RLe(v[j], v[k])}
Indicator(n, j) == [k \in 1..n |-> IF k = j THEN One ELSE Zero]

\* A decision of regret matching that exact arithmetic and floating point may take differently:
\* no regret is positive, but one that was computed (not structurally zero) is exactly zero, so
\* rounding noise of either sign decides between "proportional to the positive part" and the
\* fallback.  The property does not pin such a case ("within rounding").
Fragile(inf) == inf.tch /\ Positive(inf.r) = {} /\ \E j \in 1..Len(inf.r) : inf.r[j] = Zero

\* the set of admissible next strategies (ties in the arg-max / arg-min fallback are free);
\* {} stands for "softmax with a finite non-zero weight": symbolic, see MatchKind
Match(r, w) ==
  IF Positive(r) # {}
  THEN LET tot == RSumSeq([j \in 1..Len(r) |-> RPos(r[j])])
       IN {[j \in 1..Len(r) |-> IF r[j][1] > 0 THEN RDiv(r[j], tot) ELSE Zero]}
  ELSE IF w.t = "pinf" THEN {Indicator(Len(r), j) : j \in ArgMax(r)}
  ELSE IF w.t = "ninf" THEN {Indicator(Len(r), j) : j \in ArgMin(r)}
  ELSE IF w.v[1] = 0 THEN {[j \in 1..Len(r) |-> Frac(1, Len(r))]}
  ELSE {}
MatchKind(r, w) ==
  IF Positive(r) # {} THEN "proportional"
  ELSE IF w.t = "pinf" THEN "argmax"
  ELSE IF w.t = "ninf" THEN "argmin"
  ELSE IF w.v[1] = 0 THEN "uniform"
  ELSE "softmax"

\* a number c * atom
Num(c, atom) == [c |-> c, atom |-> atom]

\* discounting one regret entry at iteration t: the sign selects the exponent
DiscReg(x, t, par) ==
  IF x[1] > 0 THEN LET d == Disc(t, par.a) IN IF d.ok THEN Num(RMul(x, d.v), "one") ELSE Num(x, "pos")
  ELSE IF x[1] < 0 THEN LET d == Disc(t, par.b) IN IF d.ok THEN Num(RMul(x, d.v), "one") ELSE Num(x, "neg")
  ELSE Num(Zero, "one")
DiscAvg(x, tavg, par) ==
  LET d == AvgDisc(tavg, par.g) IN IF d.ok THEN Num(RMul(x, d.v), "one") ELSE Num(x, "avg")

\* reported bound of one infoset after discounting: 2 max(max regret, 0) / t
InfoBound(r, t, par) ==
  IF Positive(r) = {} THEN Num(Zero, "one")
  ELSE LET m == RMaxSeq(r)            \* discounting positive entries by one common factor keeps the arg-max
           d == DiscReg(m, t, par)
       IN Num(RMul(d.c, Frac(2, t)), d.atom)

\* ------------------------------------- one-step (symbolic where needed)
\* the specified state of one infoset after advance(t): numbers as [c, atom]
AdvanceSym(inf, t, tavg, par) ==
  [r |-> [j \in 1..Len(inf.r) |-> DiscReg(inf.r[j], t, par)],
   s |-> [j \in 1..Len(inf.s) |-> DiscAvg(inf.s[j], tavg, par)],
   kind |-> MatchKind(inf.r, par.w),
   next |-> Match(inf.r, par.w),
   pre |-> inf.r,
   fragile |-> Fragile(inf),
   t |-> t, tavg |-> tavg,
   bound |-> InfoBound(inf.r, t, par)]

\* --------------------------------------------------- exact trajectories
Exact(par, t) == Disc(t, par.a).ok /\ Disc(t, par.b).ok /\ AvgDisc(t, par.g).ok
                   /\ (t = 0 \/ AvgDisc(t - 1, par.g).ok) /\ (par.w.t # "q" \/ par.w.v[1] = 0)

\* a deterministic representative of the admissible next strategies: the lowest index wins a tie.
\* The documentation leaves ties open, so a trajectory on which a tie had to be broken is flagged
\* (Tie) and is not compared with the implementation.
Tie(inf, par) == Positive(inf.r) = {} /\ Cardinality(Match(inf.r, par.w)) > 1
SetMinInt(S) == CHOOSE x \in S : \A y \in S : x <= y
PickMatch(inf, par) ==
  IF Positive(inf.r) = {} /\ par.w.t = "pinf" THEN Indicator(Len(inf.r), SetMinInt(ArgMax(inf.r)))
  ELSE IF Positive(inf.r) = {} /\ par.w.t = "ninf" THEN Indicator(Len(inf.r), SetMinInt(ArgMin(inf.r)))
  ELSE CHOOSE x \in Match(inf.r, par.w) : TRUE

AdvanceExact(inf, t, tavg, par) ==
  [r |-> [j \in 1..Len(inf.r) |->
            IF inf.r[j][1] > 0 THEN RMul(inf.r[j], Disc(t, par.a).v)
            ELSE IF inf.r[j][1] < 0 THEN RMul(inf.r[j], Disc(t, par.b).v) ELSE Zero],
   s |-> [j \in 1..Len(inf.s) |-> RMul(inf.s[j], AvgDisc(tavg, par.g).v)],
   cur |-> PickMatch(inf, par),
   tch |-> inf.tch]

AdvancePlayer(st, p, t, tavg, par) ==
  [st EXCEPT ![p] = [i \in DOMAIN st[p] |-> AdvanceExact(st[p][i], t, tavg, par)]]

\* sum over the infosets of p of 2 max(max regret, 0) / t  (on the advanced state)
RECURSIVE SumOver(_, _, _)
SumOver(S, f, t) == IF S = {} THEN Zero
                    ELSE LET i == CHOOSE x \in S : TRUE
                         IN RAdd(RMul(RPos(RMaxSeq(f[i].r)), Frac(2, t)), SumOver(S \ {i}, f, t))
BoundOf(st, p, t) == SumOver(DOMAIN st[p], st[p], t)

\* one iteration of a method from state st; dr = this iteration's draws
StepPre(tree, st, method, dr) ==   \* Full / Sampled: the state after the pass, before advance
  Apply(st, VContrib(tree, st, method = "Sampled", dr, One, <<One, One>>))

Iterate(tree, st, method, t, par, dr) ==
  IF method = "External"
  THEN LET a == Apply(st, EContrib(tree, st, 1, dr, 1))
           b == AdvancePlayer(a, 1, t, t - 1, par)
           c == Apply(b, EContrib(tree, b, 2, dr, 2))
       IN AdvancePlayer(c, 2, t, t, par)
  ELSE AdvancePlayer(AdvancePlayer(StepPre(tree, st, method, dr), 1, t, t, par), 2, t, t, par)

\* did some advance of this iteration break a tie or take a fragile decision?
\* Fragile is judged only on infosets this pass VISITED: the regrets of an infoset the (sampled) pass did not visit are,
\* bit for bit, what the previous advance left - a zero among them is the product with a discount factor that is exactly
\* zero (alpha or beta = -inf), an injected zero or a structural zero, all exact in floating point as well; a zero that
\* was computed in an earlier visited pass was flagged there (no positive regret) or ties with the zeros the discount
\* produced (Tie).  An unsampled pass visits every infoset.
VisitedBy(cs, p, i) == \E k \in 1..Len(cs) : cs[k].pl = p /\ cs[k].info = i
IterTie(tree, st, method, t, par, dr) ==
  IF method = "External"
  THEN LET cs1 == EContrib(tree, st, 1, dr, 1)
           a == Apply(st, cs1)
           b == AdvancePlayer(a, 1, t, t - 1, par)
           cs2 == EContrib(tree, b, 2, dr, 2)
           c == Apply(b, cs2)
       IN (\E i \in DOMAIN a[1] : Tie(a[1][i], par) \/ (VisitedBy(cs1, 1, i) /\ Fragile(a[1][i])))
            \/ (\E i \in DOMAIN c[2] : Tie(c[2][i], par) \/ (VisitedBy(cs2, 2, i) /\ Fragile(c[2][i])))
  ELSE LET cs == VContrib(tree, st, method = "Sampled", dr, One, <<One, One>>)
           a == Apply(st, cs)
       IN \E p \in 1..2 : \E i \in DOMAIN a[p] : Tie(a[p][i], par) \/ (VisitedBy(cs, p, i) /\ Fragile(a[p][i]))

\* the state after T iterations from the documented initial state; draws = sequence over iterations
RECURSIVE Run(_, _, _, _, _, _)
Run(tree, method, par, T, draws, k) ==   \* state after iterations 1..k
  IF k = 0 THEN InitState(tree)
  ELSE Iterate(tree, Run(tree, method, par, T, draws, k - 1), method, k, par, draws[k])

\* final normalisation: the average strategy, uniform if nothing was accumulated
Average(inf) == LET tot == RSumSeq(inf.s)
                IN IF tot = Zero THEN [j \in 1..Len(inf.s) |-> Frac(1, Len(inf.s))]
                   ELSE [j \in 1..Len(inf.s) |-> RDiv(inf.s[j], tot)]
AverageProfile(st) == [p \in 1..2 |-> [i \in DOMAIN st[p] |-> Average(st[p][i])]]

\* a rational distribution as integer weights (for Game.tla's Evaluate)
RECURSIVE LcmDen(_)
LcmDen(v) == IF v = <<>> THEN 1
             ELSE LET l == LcmDen(Tail(v))
                      d == Head(v)[2]
                      g == GCD(l, d)
                  IN IF d = 0 \/ l = 0 \/ ~MulOK(l \div g, d) THEN 0 ELSE (l \div g) * d
ToWeights(v) == LET l == LcmDen(v)
                IN IF l = 0 THEN [j \in 1..Len(v) |-> 0]
                   ELSE [j \in 1..Len(v) |-> IF MulOK(v[j][1], l \div v[j][2]) THEN v[j][1] * (l \div v[j][2]) ELSE 0]
WeightProfile(prof) == [p \in 1..2 |-> [i \in DOMAIN prof[p] |-> ToWeights(prof[p][i])]]
WeightsOK(wp) == \A p \in 1..2 : \A i \in DOMAIN wp[p] : SumSeq(wp[p][i]) > 0

\* is some number of the state poisoned (32 bit overflow of the exact arithmetic)?
StatePoisoned(st) == \E p \in 1..2 : \E i \in DOMAIN st[p] :
                        AnyPoison(st[p][i].r) \/ AnyPoison(st[p][i].s) \/ AnyPoison(st[p][i].cur)
================================================================================
