------------------------------- MODULE MC_Eval -------------------------------
(***************************************************************************)
(* Oracle run for C01: for every case (raw tree, integer profile) written  *)
(* by `harness gen eval`, evaluate the declarative semantics of Game.tla   *)
(* (expected utility, brute-force best response, regret) and print the     *)
(* exact rationals; `harness replay eval` compares them with get_info().   *)
(* One initial state per case, the evaluation happens in the single Next   *)
(* step so that the cases are spread over TLC's workers.                   *)
(***************************************************************************)
EXTENDS Game, Json, IOUtils

Cases == ndJsonDeserialize(IOEnv.CASES)

VARIABLES i, done
vars == <<i, done>>

Init == i \in 1..Len(Cases) /\ done = FALSE

Next == /\ ~done
        /\ done' = TRUE
        /\ UNCHANGED i
        /\ PrintT(<<"OUT", Cases[i].id, ToJson(Evaluate(Cases[i].tree, Cases[i].prof))>>)

Spec == Init /\ [][Next]_vars
===============================================================================
