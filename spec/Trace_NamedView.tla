---------------------------- MODULE Trace_NamedView ----------------------------
(***************************************************************************)
(* Trace validation for C13 (impl -> spec).  `harness record named` walks  *)
(* the real iterators of as_named() - calling len() before every next()    *)
(* and once more after exhaustion - and logs one event per call.  Each     *)
(* event must be explained by the corresponding NamedView action, with     *)
(* the logged length equal to the advertised length of the specification   *)
(* (design LenCountsCells = FALSE), the logged item equal to the one the   *)
(* specification yields (probabilities compared as float order tokens      *)
(* against the dense profile logged at reset), and the micro-unit sums of  *)
(* each inner iteration enclosing one.  Many runs are concatenated; a      *)
(* reset event starts the next one.                                        *)
(***************************************************************************)
EXTENDS NamedView, Json, IOUtils, TLC, Integers

Rec == ndJsonDeserialize(IOEnv.TRACE)

VARIABLES l,     \* next line of the trace
          meta,  \* names and probability tokens of the current run
          acc,   \* micro-unit bounds of the probabilities yielded by the current inner iterator
          g2     \* the game of the second pass (internal iteration)
tvars == <<vars, l, meta, acc, g2>>

IsEvent(e) == l <= Len(Rec) /\ Rec[l].e = e /\ l' = l + 1

GameOf(r) == [pos |-> r.pos, ns |-> r.ns]
MetaOf(r) == [names |-> r.names, toks |-> r.toks, one |-> r.one]

TraceInit == /\ l = 2
             /\ Rec[1].e = "reset"
             /\ Start(GameOf(Rec[1]))
             /\ meta = MetaOf(Rec[1])
             /\ acc = <<0, 0>>
             /\ g2 = [pos |-> <<>>, ns |-> 0, names |-> <<>>]

Reset == /\ IsEvent("reset")
         /\ game' = GameOf(Rec[l]) /\ opos' = 0 /\ singles' = 1..Rec[l].ns /\ inner' = NoInner
         /\ meta' = MetaOf(Rec[l])
         /\ acc' = <<0, 0>>
         /\ UNCHANGED g2

OLen == /\ IsEvent("olen")
        /\ Rec[l].v = OuterAdvertised
        /\ UNCHANGED <<vars, meta, acc, g2>>

ONext == /\ IsEvent("onext")
         /\ \/ Rec[l].kind = "multi" /\ OuterNextMulti /\ meta.names[opos + 1] = Rec[l].name
            \/ Rec[l].kind = "single" /\ OuterNextSingle(Rec[l].s)
            \/ Rec[l].kind = "none" /\ OuterNextNone
         /\ acc' = <<0, 0>>
         /\ UNCHANGED <<meta, g2>>

ILen == /\ IsEvent("ilen")
        /\ Rec[l].v = InnerAdvertised
        /\ UNCHANGED <<vars, meta, acc, g2>>

INext == /\ IsEvent("inext")
         /\ \/ /\ Rec[l].kind = "some"
               /\ \/ /\ InnerNextMulti
                     /\ Rec[l].j = NextPositive(inner.i, inner.j)
                     /\ Rec[l].p = meta.toks[inner.i][Rec[l].j]
                  \/ /\ InnerNextSingle
                     /\ Rec[l].j = 1
                     /\ Rec[l].p = meta.one
               \* a listed probability is a number in (0, 1] (micro-units; judged before it is added: an infinite
               \* "probability" must be a rejected event, not an arithmetic overflow of the tally)
               /\ Rec[l].lo >= 0 /\ Rec[l].hi >= 1 /\ Rec[l].hi <= 1000001
               /\ acc' = <<acc[1] + Rec[l].lo, acc[2] + Rec[l].hi>>
            \/ /\ Rec[l].kind = "none"
               /\ InnerNextNone
               \* the probabilities of the listed actions sum to one: in micro-units as tallied here, and the
               \* float sum formed by the harness deviates by less than 1e-11 (dev is in units of 1e-13)
               /\ acc[1] <= 1000000 /\ 1000000 <= acc[2]
               /\ Rec[l].dev >= -100 /\ Rec[l].dev <= 100
               /\ acc' = acc
         /\ UNCHANGED <<meta, g2>>

\* the round trip from_named(as_named(s)) = s, observed by the harness entry by entry
RoundTrip == /\ IsEvent("roundtrip")
             /\ Rec[l].ok
             /\ UNCHANGED <<vars, meta, acc, g2>>

\* ---- internal iteration (second pass over fresh iterators): whatever adaptor consumes an iterator - count, fold,
\* last, nth followed by collect - the items are those next() yields: the positive actions of the infoset in order
\* (the one action of a single-action infoset), and every infoset of the player once
Reset2 == /\ IsEvent("reset2")
          /\ g2' = [pos |-> Rec[l].pos, ns |-> Rec[l].ns, names |-> Rec[l].names]
          /\ UNCHANGED <<vars, meta, acc>>
Listing2(i) == IF i = 0 THEN <<1>>
               ELSE SelectSeq([k \in 1..Len(g2.pos[i]) |-> k], LAMBDA k : g2.pos[i][k])
ConsumedOK(r) ==
  LET ls == Listing2(r.i)
  IN /\ r.i \in 0..Len(g2.pos)
     /\ (r.via = "count" => r.n = Len(ls))
     /\ (r.via = "fold" => r.js = ls)
     /\ (r.via = "last" => r.j = (IF ls = <<>> THEN 0 ELSE ls[Len(ls)]))
     /\ (r.via = "nth" => /\ r.j = (IF ls = <<>> THEN 0 ELSE ls[1])
                           /\ r.js = (IF ls = <<>> THEN <<>> ELSE Tail(ls)))
Consumed == /\ IsEvent("consumed") /\ (ConsumedOK(Rec[l]) = TRUE)
            /\ UNCHANGED <<vars, meta, acc, g2>>
OConsumed == /\ IsEvent("oconsumed")
             /\ Rec[l].n = Len(g2.pos) + g2.ns
             /\ Rec[l].multi = g2.names
             /\ Rec[l].singles = g2.ns
             /\ UNCHANGED <<vars, meta, acc, g2>>

TraceNext == Reset \/ OLen \/ ONext \/ ILen \/ INext \/ RoundTrip \/ Reset2 \/ Consumed \/ OConsumed
TraceSpec == TraceInit /\ [][TraceNext]_tvars

\* acceptance: every line was consumed; on rejection print the first line that no action explains
TraceAccepted ==
  LET d == TLCGet("stats").diameter
  IN IF d = Len(Rec) THEN TRUE
     ELSE /\ PrintT(<<"REJECT", d + 1, ToJson(Rec[d + 1])>>)
          /\ FALSE
===============================================================================
