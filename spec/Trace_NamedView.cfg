SPECIFICATION TraceSpec
CONSTANT LenCountsCells = FALSE
CONSTANT Games = {}
CHECK_DEADLOCK FALSE
POSTCONDITION TraceAccepted
