---------------------------------- MODULE Cli ----------------------------------
(***************************************************************************)
(* The command-line tool as documented (C15, C16, C17): what the options   *)
(* mean, which parser reads the input, which inputs must be rejected with  *)
(* which diagnostic category, and what the printed object must say about   *)
(* the game in the input.                                                  *)
(***************************************************************************)
EXTENDS Cfr, Efg, Contract, Strategy, JsonDsl

\* ------------------------------------------------------------------ options
MethodOf(m) == IF m = "full" THEN "Full" ELSE IF m = "sampled" THEN "Sampled" ELSE "External"
PresetOf(d) == IF d = "vanilla" THEN Vanilla ELSE IF d = "lcfr" THEN Lcfr
               ELSE IF d = "cfr-plus" THEN CfrPlus ELSE IF d = "dcfr" THEN Dcfr ELSE DcfrPrune
\* -t 0 means "no limit"; every other value is the budget itself
Unlimited(t) == t = 0
\* defaults of omitted options
Defaults == [m |-> "external", d |-> "dcfr", t |-> 1000, p |-> 0, c |-> Zero, fmt |-> "auto"]

\* ------------------------------------------------------------------ input routing
\* flag: --input-format; src: "stdin" or "file"; ext: the file's extension
Parser(flag, src, ext) ==
  IF flag = "json" THEN "json"
  ELSE IF flag = "gambit" THEN "gambit"
  ELSE IF src = "file" /\ ext = ".json" THEN "json"
  ELSE IF src = "file" /\ ext = ".efg" THEN "gambit"
  ELSE "auto"

\* content classes of an input text
\*   "json-ok" a valid JSON-DSL game        "json-contract" JSON-DSL syntax, tree outside the library contract
\*   "efg"     Gambit syntax (judged by EfgFaults below)        "junk" neither
\* the admissible diagnostic categories; {} = must be solved
EfgFaults(doc) ==
  LET wellformed == /\ ProbsSum(doc.root) /\ OutcomesConsistent(doc) /\ OutsDefined(doc, doc.root)
                    /\ PlayersOK(doc.root, doc.players) /\ InfosetsConsistent(doc)
  IN IF ~wellformed THEN {"gambit-error"}
     ELSE IF doc.players # 2 THEN {"players"}
     \* a name clash leaves the document without a meaning: the other rules are not evaluated on it
     ELSE IF NumberClash(doc) THEN {"duplicate-infosets"}
     ELSE IF GivenClash(doc) THEN {"duplicate-infosets"}
     ELSE (IF ~WithinTolerance(doc) THEN {"constant-sum"} ELSE {})
          \cup (IF ViolatedRules(Conv(doc, doc.root, <<0, 0>>, 0)) # {} THEN {"game-error"} ELSE {})

Categories(parser, class, doc) ==
  IF parser = "json"
  THEN IF class = "json-ok" THEN {} ELSE IF class = "json-contract" THEN {"game-error"} ELSE {"json-error"}
  ELSE IF class = "efg-huge"     \* Gambit syntax with a payoff literal beyond double precision
  THEN {"non-finite"}
  ELSE IF parser = "gambit"
  THEN IF class = "efg" THEN EfgFaults(doc) ELSE {"gambit-error"}
  ELSE \* auto: JSON first, then Gambit
       IF class = "json-ok" THEN {}
       ELSE IF class = "json-contract" THEN {"game-error"}
       ELSE IF class = "efg" THEN (IF EfgFaults(doc) = {"gambit-error"} THEN {"auto-error"} ELSE EfgFaults(doc))
       ELSE {"auto-error"}

\* a JSON document as written (JsonDsl.tla): [cats |-> admissible diagnostic categories, solve |-> solving admissible].
\* A document of the grammar must be solved (or refused as game-error when its tree is outside the library contract);
\* a document outside the language must be refused as json-error; a document that uses what the documentation leaves
\* open (JsonDsl: unlisted members, null infoset, repeated names) may be solved - with the meaning JState gives it - or
\* refused as json-error.  Under auto-detection a document the JSON reader refuses goes to the Gambit reader, which
\* refuses every JSON document: auto-error.
JsonAdmissible(parser, v, scale, wscale) ==
  LET r == JState(v, scale, wscale)
      must == IF ~r.ok THEN {"json-error"} ELSE IF ViolatedRules(r.t) # {} THEN {"game-error"} ELSE {}
      open == r.ok /\ ~JStrict(v)
      viaJson == [cats |-> must \cup (IF open THEN {"json-error"} ELSE {}), solve |-> must = {}]
  IN IF parser = "json" THEN viaJson
     ELSE IF parser = "gambit" THEN [cats |-> {"gambit-error"}, solve |-> FALSE]
     ELSE [cats |-> {IF x = "json-error" THEN "auto-error" ELSE x : x \in viaJson.cats}, solve |-> viaJson.solve]

\* ------------------------------------------------------------------ the printed object
\* all information sets of player p in a raw tree, with their action lists (single-action ones too)
RECURSIVE AllInfos(_, _)
AllInfos(t, p) ==
  IF t.k = "T" THEN {}
  ELSE LET below == UNION {AllInfos(t.kids[j].t, p) : j \in 1..Len(t.kids)}
       IN IF t.k = "P" /\ t.pl = p
          THEN below \cup {<<t.info, [j \in 1..Len(t.kids) |-> t.kids[j].a]>>} ELSE below
ActsOf(t, p, info) == (CHOOSE x \in AllInfos(t, p) : x[1] = info)[2]

\* a printed strategy of one player: sequence of <<info, << <<action, n, d>>, ... >> >>
PrintedInfos(ps) == {ps[j][1] : j \in 1..Len(ps)}
EntriesOf(ps, info) == ps[CHOOSE j \in 1..Len(ps) : ps[j][1] = info]
ProbIn(es, a) == LET S == {j \in 1..Len(es) : es[j][1] = a}
                 IN IF S = {} THEN Zero ELSE LET j == CHOOSE x \in S : TRUE IN Frac(es[j][2], es[j][3])

\* names: exactly the player's information sets, each once; actions of that set, each at most once;
\* only positive probabilities
NamesOK(t, p, ps) ==
  /\ PrintedInfos(ps) = {x[1] : x \in AllInfos(t, p)}
  /\ Len(ps) = Cardinality(PrintedInfos(ps))
  /\ \A j \in 1..Len(ps) :
        LET acts == ActsOf(t, p, ps[j][1])
            es == ps[j][2]
        IN /\ \A k \in 1..Len(es) : (\E i \in 1..Len(acts) : acts[i] = es[k][1]) /\ es[k][2] > 0 /\ es[k][3] > 0
           /\ \A k, m \in 1..Len(es) : k # m => es[k][1] # es[m][1]
DistOK(ps) == \A j \in 1..Len(ps) : RSumSeq([k \in 1..Len(ps[j][2]) |-> Frac(ps[j][2][k][2], ps[j][2][k][3])]) = One

\* the dense rational profile (multi-action information sets) described by a printed pair
ProfileOf(t, printed) ==
  [p \in 1..2 |-> [i \in InfoNames(t, p) |->
     LET acts == ActsOf(t, p, i)
         es == EntriesOf(printed[p], i)[2]
     IN [j \in 1..Len(acts) |-> ProbIn(es, acts[j])]]]

\* the printed form of a dense rational profile: positive entries only, single-action sets at 1
PrintedOf(t, prof) ==
  [p \in 1..2 |->
     {<<x[1], IF Len(x[2]) = 1 THEN {<<x[2][1], One>>}
              ELSE {<<x[2][j], prof[p][x[1]][j]>> : j \in {k \in 1..Len(x[2]) : prof[p][x[1]][k] # Zero}}>>
        : x \in AllInfos(t, p)}]
PrintedSet(printed) ==
  [p \in 1..2 |-> {<<printed[p][j][1], {<<printed[p][j][2][k][1], Frac(printed[p][j][2][k][2], printed[p][j][2][k][3])>>
                                          : k \in 1..Len(printed[p][j][2])}>> : j \in 1..Len(printed[p])}]

\* ------------------------------------------------------------------ clipping
\* after solving: the profile with every action at or below the threshold removed is printed iff its
\* regret is STRICTLY lower
Clipped(prof, c) == [p \in 1..2 |-> [i \in DOMAIN prof[p] |-> TruncInfo(prof[p][i], [t |-> "q", v |-> c])]]
\* a probability that EQUALS the threshold although neither is a binary fraction (1/9 against 1/9): in floating point
\* the two are rounded numbers an ulp apart or not, so which side of `>` the action falls on is not decided by the
\* exact model (for binary fractions - 1/4 against 1/4 - it is: both are exact)
RECURSIVE IsPow2(_)
IsPow2(d) == d = 1 \/ (d > 1 /\ d % 2 = 0 /\ IsPow2(d \div 2))
ClipTie(prof, c) == /\ ~IsPoison(c) /\ ~IsPow2(c[2])
                    /\ \E p \in 1..2 : \E i \in DOMAIN prof[p] : \E j \in 1..Len(prof[p][i]) : prof[p][i][j] = c
ClipChoice(t, prof, c) ==
  LET cl == Clipped(prof, c)
      e == Evaluate(t, WeightProfile(prof))
      ec == Evaluate(t, WeightProfile(cl))
  IN IF e.poisoned \/ ec.poisoned \/ ~WeightsOK(WeightProfile(prof)) \/ ~WeightsOK(WeightProfile(cl))
     THEN [ok |-> FALSE, prof |-> prof, clipped |-> FALSE, margin |-> Zero]
     ELSE [ok |-> TRUE, prof |-> IF RLt(ec.total, e.total) THEN cl ELSE prof, clipped |-> RLt(ec.total, e.total),
           margin |-> RSub(e.total, ec.total)]
================================================================================
