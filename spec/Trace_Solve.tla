------------------------------ MODULE Trace_Solve ------------------------------
(***************************************************************************)
(* Monitor for long real runs (C02, C03, C04; impl -> spec).  `harness     *)
(* record solve` runs Game::solve on seeded and adversarial games for many *)
(* budgets, thresholds and thread counts and logs one `run` event per      *)
(* solve: the configuration, the returned bounds and the true regret of    *)
(* the returned profile (get_info, the instrument validated by C01) as     *)
(* order tokens and directed micro-units.  The specification recomputes    *)
(* the game statistics D, N, A from the raw tree (Game.tla) and accepts    *)
(* the event only if                                                       *)
(*   - every bound is a non-negative number, the total is the larger one,  *)
(*     the budget is not exceeded                                   (all)  *)
(*   - the total bound dominates the true total regret, and a run stopped  *)
(*     early has true regret below the threshold    (C02: Full, vanilla)   *)
(*   - each player's bound is at most 2 D N sqrt(A) / sqrt(T)              *)
(*                                                  (C03: Full, vanilla)   *)
(*   - the true regret is at most 6 D N (sqrt(A) + 1/sqrt(T)) / sqrt(T)    *)
(*                                                  (C03: Full, presets)   *)
(*   - between budget 25 and budget 2500 the true regret at least halves   *)
(*     (or is below 0.2% of D)                      (C03: Full, presets)   *)
(*   - the true regret is at most D N sqrt(A) / sqrt(T)                    *)
(*                                          (C04: Sampled, External)       *)
(* `xrun` events (games with events of probability 2^-60 and payoffs 2^62)  *)
(* are held to C02 on the floating-point numbers themselves.               *)
(* and, at the `corpus` event, that over the games of the trace the        *)
(* regret relative to the payoff range after the largest budget is below   *)
(* one percent for most games and has at least halved since the small      *)
(* budget for most games (C04).  Budgets are perfect squares dividing      *)
(* 10^6 so that the envelopes are exact integers in micro-units.           *)
(***************************************************************************)
EXTENDS Game, Float, Json, IOUtils

Rec == ndJsonDeserialize(IOEnv.TRACE)

VARIABLES l,      \* next line
          stats,  \* [D, N, A] of the current game
          small,  \* regret (micro, floor) of the current game / method / preset at the small budget, or -1
          tally   \* corpus counters: [n, below, halved]
tvars == <<l, stats, small, tally>>

IsEvent(e) == l <= Len(Rec) /\ Rec[l].e = e /\ l' = l + 1

StatsOf(t) == [D |-> PayoffRange(t), N |-> NumInfosets(t), A |-> MaxActions(t)]

TraceInit == /\ l = 2
             /\ Rec[1].e = "reset"
             /\ stats = StatsOf(Rec[1].tree)
             /\ small = -1
             /\ tally = [n |-> 0, below |-> 0, halved |-> 0]

Reset == /\ IsEvent("reset")
         /\ stats' = StatsOf(Rec[l].tree)
         /\ small' = -1
         /\ UNCHANGED tally

\* ------------------------------------------------------------ envelopes (micro-units)
Max2(a, b) == IF a > b THEN a ELSE b
\* 2 D N sqrt(A) / sqrt(T)
\* (when the product would leave 32 bits the quotient is formed first and rounded up: never stricter)
VanillaEnv(T) == LET q == SqrtCeil(stats.A * 1000000) * 1000
                     m == 2 * stats.D * stats.N
                 IN IF m <= 2147483647 \div q THEN (m * q) \div SqrtFloor(T)
                    ELSE m * ((q \div SqrtFloor(T)) + 1)
\* 6 D N (sqrt(A T) + 1) / T
PresetTrivial(T) == 6 * stats.N * (SqrtCeil(stats.A * T) + 1) >= T     \* envelope >= D >= any regret
PresetEnv(T) == 6 * stats.D * stats.N * (SqrtCeil(stats.A * T) + 1) * (1000000 \div T)
\* D N sqrt(A) / sqrt(T)
SampledEnv(T) == (stats.D * stats.N * SqrtCeil(stats.A * 1000000) * 1000) \div SqrtFloor(T)

Common(r) == /\ TokLe(TokZero, r.b1) /\ TokLe(TokZero, r.b2)
             /\ ~IsPosInf(r.b1) /\ ~IsPosInf(r.b2)
             /\ TokEq(r.bt, TokMax(r.b1, r.b2))
             /\ TokEq(r.rt, TokMax(r.r1, r.r2))
             /\ TokLe(TokZero, r.r1) /\ TokLe(TokZero, r.r2)
             /\ r.iters <= r.T /\ r.iters >= 1
             \* no bound is below zero, so with the threshold 0 (documented: "run exactly max_iter iterations") no run ends early
             /\ (("thrhi" \in DOMAIN r /\ r.thrhi <= 0) => r.iters = r.T)

C02(r) == /\ Max2(r.b1hi, r.b2hi) >= r.rtlo
          /\ (r.iters < r.T => r.rtlo < r.thrhi)

\* on games with very many infosets the envelope at small budgets exceeds what 32-bit micro-units hold (2147 payoff
\* units): it is then not evaluated (a bound in micro-units that fits is below it anyway)
VanillaTooBig(T) == stats.D * stats.N > 0 /\ (2147483647 \div (2 * stats.D * stats.N)) < ((SqrtCeil(stats.A * 1000000) * 1000) \div SqrtFloor(T)) + 1
C03Vanilla(r) == r.iters = r.T => (VanillaTooBig(r.T) \/ (r.b1lo <= VanillaEnv(r.T) /\ r.b2lo <= VanillaEnv(r.T)))
C03Preset(r) == (r.iters = r.T /\ ~PresetTrivial(r.T)) => r.rtlo <= PresetEnv(r.T)
\* at the long budget (small games only) the constant is 4: the envelope with constant 1 is not a theorem
\* and leaves only a factor 2.4 there (measured), with 4 it leaves about 10
C04(r) == r.iters = r.T => r.rtlo <= (IF r.T >= 100000 THEN 4 ELSE 1) * SampledEnv(r.T)

\* C03, the trend between the small budget (25) and the large one (2500) of one (game, preset, threads)
\* series: at the CFR rate the regret shrinks by a factor of ten; demanded: by a factor of two, unless it
\* is already below 0.2% of the payoff range.  Measured on the unchanged code: worst ratio 0.176 over 708
\* series (DESIGN 4 C03), so the margin is about three.
C03Trend(r) == (r.method = "Full" /\ r.last /\ small >= 0 /\ r.iters = r.T)
                 => (2 * r.rtlo <= small + 2 \/ r.rtlo <= stats.D * 2000)

RunOK(r) == /\ Common(r)
            /\ C03Trend(r)
            /\ (r.method = "Full" /\ r.preset = "vanilla") => (C02(r) /\ C03Vanilla(r))
            /\ r.method = "Full" => C03Preset(r)
            /\ r.method # "Full" => C04(r)

\* corpus statistics over (game, method, preset) series of the sampled methods: `first` marks the
\* small budget of a series, `last` the large one
RunEv == /\ IsEvent("run")
         /\ RunOK(Rec[l]) = TRUE
         /\ small' = IF Rec[l].first THEN Rec[l].rtlo ELSE small
         /\ tally' = IF Rec[l].last /\ Rec[l].method # "Full" /\ small >= 0
                     THEN [n |-> tally.n + 1,
                           below |-> tally.below + (IF Rec[l].rthi <= stats.D * 10000 THEN 1 ELSE 0),
                           halved |-> tally.halved + (IF 2 * Rec[l].rtlo <= small \/ Rec[l].rthi <= stats.D * 1000
                                                      THEN 1 ELSE 0)]
                     ELSE tally
         /\ UNCHANGED stats

\* a run of Full / vanilla on a game of EXTREME magnitudes (events of probability 2^-60 with payoffs 2^62): the
\* statistics and the micro-units leave 32 bits, so no envelope - C02 on the floating-point numbers themselves
XRunOK(r) == /\ Common(r)
             /\ TokLe(r.rt, r.bt)
             /\ (r.iters < r.T => TokLt(r.rt, r.thr))
XRun == /\ IsEvent("xrun")
        /\ XRunOK(Rec[l]) = TRUE
        /\ UNCHANGED <<stats, small, tally>>

Corpus == /\ IsEvent("corpus")
          /\ (tally.n >= 10 => (2 * tally.below >= tally.n /\ 2 * tally.halved >= tally.n))
          /\ UNCHANGED <<stats, small, tally>>

TraceNext == Reset \/ RunEv \/ XRun \/ Corpus
TraceSpec == TraceInit /\ [][TraceNext]_tvars

TraceAccepted ==
  LET d == TLCGet("stats").diameter
  IN IF d = Len(Rec) THEN TRUE
     ELSE /\ PrintT(<<"REJECT", d + 1, ToJson(Rec[d + 1])>>)
          /\ FALSE
================================================================================
