SPECIFICATION Spec
CONSTANT LenCountsCells = FALSE
CONSTANT Games <- MCGames
CHECK_DEADLOCK FALSE
PROPERTY OuterLenExact
PROPERTY InnerLenExact
PROPERTY InnerYieldsNextPositive
INVARIANT OuterZeroIffDone
INVARIANT InnerZeroIffDone
INVARIANT EachInfosetOnce
