SPECIFICATION Spec
CONSTANT MaxNodes = 15
CONSTANT Targets = {3, 6, 9, 12, 18, 24, 48}
CONSTANT Passes = 3
CONSTANT Method = "Full"
CONSTANT ClearWorkspace = TRUE
CHECK_DEADLOCK FALSE
INVARIANT InvExactlyOnce
INVARIANT InvNoStaleTask
INVARIANT InvCacheCurrent
INVARIANT InvDisjoint
INVARIANT InvNoLockConflict
