INIT EInit
NEXT ENext
CHECK_DEADLOCK FALSE
CONSTANT RecallChecksAction = TRUE
CONSTANT SingleMultiClash = TRUE
