------------------------------- MODULE MC_Build -------------------------------
(***************************************************************************)
(* C11 on U-tiny: every raw tree of depth <= 2 below the root with 0..2    *)
(* children per node, chance weights {1,3}, chance infoset in {none, c},   *)
(* players {1,2}, infosets {x,y}, actions {a,b}, payoffs {0,2} - valid and *)
(* invalid alike (394 758 trees).  The children of the root are separate   *)
(* variables so that TLC enumerates the universe lazily.  On every tree    *)
(* TLC checks the theorems of Build.tla against Contract.tla and emits the *)
(* tree with the specified verdict and compact game for replay into        *)
(* Game::from_root.  SLICE / OF select a deterministic subset.             *)
(***************************************************************************)
EXTENDS Build, Json, IOUtils

Slice == atoi(IOEnv.SLICE)
Of == atoi(IOEnv.OF)

Term(p) == [k |-> "T", pay |-> p]
T0 == {Term(0), Term(2)}
CKids(S) == UNION {[1..n -> [w : {1, 3}, t : S]] : n \in 0..2}
PKids(S) == UNION {[1..n -> [a : {"a", "b"}, t : S]] : n \in 0..2}
T1 == T0 \cup {[k |-> "C", ci |-> ci, kids |-> ks] : ci \in {"none", "c"}, ks \in CKids(T0)}
         \cup {[k |-> "P", pl |-> pl, info |-> info, kids |-> ks] :
                  pl \in 1..2, info \in {"x", "y"}, ks \in PKids(T0)}

VARIABLES kind, ci, pl, info, n, k1, k2, l1, l2, done
vars == <<kind, ci, pl, info, n, k1, k2, l1, l2, done>>

Kids == IF kind = "C"
        THEN [j \in 1..n |-> [w |-> IF j = 1 THEN l1 ELSE l2, t |-> IF j = 1 THEN k1 ELSE k2]]
        ELSE [j \in 1..n |-> [a |-> IF j = 1 THEN l1 ELSE l2, t |-> IF j = 1 THEN k1 ELSE k2]]
Tree == IF kind = "C" THEN [k |-> "C", ci |-> ci, kids |-> Kids]
        ELSE [k |-> "P", pl |-> pl, info |-> info, kids |-> Kids]

\* a cheap structural hash for slicing
RECURSIVE H(_)
H(t) == IF t.k = "T" THEN 1 + t.pay
        ELSE IF t.k = "C"
        THEN (3 + (IF t.ci = "c" THEN 5 ELSE 0)
                + SumSeq([j \in 1..Len(t.kids) |-> j * 7 * (t.kids[j].w + 11 * H(t.kids[j].t))])) % 1009
        ELSE (17 + 31 * t.pl + (IF t.info = "x" THEN 13 ELSE 0)
                + SumSeq([j \in 1..Len(t.kids) |->
                     j * 5 * ((IF t.kids[j].a = "a" THEN 3 ELSE 8) + 11 * H(t.kids[j].t))])) % 1009

Labels == IF kind = "C" THEN {1, 3} ELSE {"a", "b"}

Init == /\ kind \in {"C", "P"}
        /\ IF kind = "C" THEN ci \in {"none", "c"} /\ pl = 0 /\ info = ""
                         ELSE ci = "" /\ pl \in 1..2 /\ info \in {"x", "y"}
        /\ n \in 0..2
        /\ IF n >= 1 THEN k1 \in T1 /\ l1 \in Labels ELSE k1 = Term(0) /\ l1 = 0
        /\ IF n >= 2 THEN k2 \in T1 /\ l2 \in Labels ELSE k2 = Term(0) /\ l2 = 0
        /\ H(Tree) % Of = Slice
        /\ done = FALSE

Next == /\ ~done
        /\ done' = TRUE
        /\ UNCHANGED <<kind, ci, pl, info, n, k1, k2, l1, l2>>
        /\ PrintT(<<"OUT", 0, ToJson([tree |-> Tree, build |-> Build(Tree),
                                      rules |-> ViolatedRules(Tree), kinds |-> ViolatedKinds(Tree)])>>)

Spec == Init /\ [][Next]_vars

InvVerdict == VerdictMatchesContract(Tree)
InvErrorKind == ErrorNamesViolatedRule(Tree)
InvSemantics == CompactPreservesSemantics(Tree)
InvPrev == PrevLinksWellFounded(Tree)
InvCount == InfosetCountMatches(Tree)
===============================================================================
