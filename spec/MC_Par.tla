--------------------------------- MODULE MC_Par ---------------------------------
(***************************************************************************)
(* C06 / C07, the design-level argument.  TLC BUILDS every ordered tree    *)
(* whose internal nodes have 2..4 children, up to MaxNodes nodes, as the   *)
(* preorder word of child counts (one Extend action per node, so only      *)
(* valid prefixes become states), optionally assigns an owner in {1,2} to  *)
(* every internal node (External), and then runs Passes consecutive passes *)
(* of the parallel decomposition of Par.tla with the workspace persisting  *)
(* between passes exactly as in the code.  ClearWorkspace = TRUE is the    *)
(* repaired code (work list and cache emptied after every pass), FALSE the *)
(* pinned code - there TLC exhibits the stale task / stale cache.          *)
(* The draws of a pass are a pure function of node and pass, so that       *)
(* consecutive passes follow different samples.                            *)
(***************************************************************************)
EXTENDS Par, Integers

CONSTANTS MaxNodes, Targets, Passes, Method, ClearWorkspace

VARIABLES word,    \* preorder word of child counts built so far
          owner,   \* owner[n] in {1,2} of internal node n (External), 0 otherwise
          phase,   \* "build", "run", "done"
          target,
          pass,
          ws,      \* [queue, work] persisting across passes
          cache,   \* nodes with a cached payoff
          last     \* what the last pass did: [tasks, cache, pick, q], for the invariants
vars == <<word, owner, phase, target, pass, ws, cache, last>>

RECURSIVE SumSeqN(_)
SumSeqN(s) == IF s = <<>> THEN 0 ELSE Head(s) + SumSeqN(Tail(s))
Open(w) == 1 + SumSeqN(w) - Len(w)          \* unfilled child slots

Init == /\ word = <<>> /\ owner = <<>> /\ phase = "build" /\ target \in Targets /\ pass = 0
        /\ ws = [queue |-> <<>>, work |-> <<>>] /\ cache = {} /\ last = [tasks |-> <<>>, cache |-> {}, pick |-> <<>>, q |-> 0]

Extend == /\ phase = "build" /\ Open(word) > 0
          /\ \E c \in {0, 2, 3, 4} :
               /\ Len(word) + 1 + (Open(word) - 1 + c) <= MaxNodes
               /\ word' = Append(word, c)
               /\ \E o \in (IF c = 0 \/ Method # "External" THEN {0} ELSE {1, 2}) : owner' = Append(owner, o)
          /\ UNCHANGED <<phase, target, pass, ws, cache, last>>

\* subtree of node i ends at End(i); children of i
RECURSIVE End(_, _)
RECURSIVE KidsFrom(_, _, _, _)
KidsFrom(w, first, k, acc) == IF k = 0 THEN acc ELSE KidsFrom(w, End(w, first) + 1, k - 1, Append(acc, first))
End(w, i) == IF w[i] = 0 THEN i ELSE End(w, Last(KidsFrom(w, i + 1, w[i], <<>>)))

G == [kids |-> [n \in 1..Len(word) |-> KidsFrom(word, n + 1, word[n], <<>>)],
      kind |-> [n \in 1..Len(word) |-> IF word[n] = 0 THEN "T" ELSE "P"],
      pl |-> [n \in 1..Len(word) |-> IF Method = "External" THEN owner[n] ELSE 1],
      info |-> [n \in 1..Len(word) |-> n]]            \* perfect information: one infoset per node

Start == /\ phase = "build" /\ Open(word) = 0 /\ Len(word) >= 3
         /\ phase' = "run" /\ pass' = 1
         /\ UNCHANGED <<word, owner, target, ws, cache, last>>

\* the draws of pass p: a pure function of node and pass
Pick(p) == [n \in 1..Len(word) |-> IF word[n] = 0 THEN 1 ELSE ((n + p) % word[n]) + 1]
Updater(p) == IF Method = "External" THEN 2 - (p % 2) ELSE 0      \* 1, 2, 1, 2, ...

RunPass == /\ phase = "run" /\ pass <= Passes
           /\ LET q == Updater(pass)
                  pick == Pick(pass)
                  t == Threshold(G, Method, q, pick, target, ws.work)
                  c == cache \cup Range(t.queue)
              IN /\ last' = [tasks |-> t.queue, cache |-> c, pick |-> pick, q |-> q]
                 /\ ws' = [queue |-> <<>>, work |-> IF ClearWorkspace THEN <<>> ELSE t.work]
                 /\ cache' = IF ClearWorkspace \/ Method = "External" THEN {} ELSE c
           /\ pass' = pass + 1
           /\ UNCHANGED <<word, owner, phase, target>>

Finish == phase = "run" /\ pass > Passes /\ phase' = "done" /\ UNCHANGED <<word, owner, target, pass, ws, cache, last>>

Next == Extend \/ Start \/ RunPass \/ Finish
Spec == Init /\ [][Next]_vars

Ran == phase = "run" /\ pass >= 2
InvExactlyOnce == Ran => ExactlyOnce(G, Method, last.q, last.pick, last.tasks, last.cache)
InvNoStaleTask == Ran => NoStaleTask(G, Method, last.q, last.pick, last.tasks)
InvCacheCurrent == Ran => CacheIsCurrent(last.tasks, last.cache)
InvDisjoint == Ran => TasksDisjoint(G, last.tasks)
InvNoLockConflict == Ran => NoLockConflict(G, Method, last.q, last.pick, last.tasks)
\* the cut is not vacuous somewhere: reported through coverage, not an invariant
================================================================================
