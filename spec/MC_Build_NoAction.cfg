INIT Init
NEXT Next
CHECK_DEADLOCK FALSE
CONSTANT RecallChecksAction = FALSE
CONSTANT SingleMultiClash = TRUE
INVARIANT InvVerdict
INVARIANT InvErrorKind
INVARIANT InvSemantics
INVARIANT InvCount
INVARIANT InvPrev
