INIT Init
NEXT Next
CHECK_DEADLOCK FALSE
INVARIANT InvContract
INVARIANT InvEmit
