------------------------------ MODULE MC_Import ------------------------------
(***************************************************************************)
(* C14.  TLC builds candidate named strategies entry by entry (so that     *)
(* every list up to the bounds is a reachable state) for one player while  *)
(* the other player's list is a fixed valid or empty one; each entry names *)
(* an existing, a foreign or                                               *)
(* the other player's infoset and carries pairs (action, weight) over      *)
(* legal and illegal actions and valid and invalid weights.  On every      *)
(* state it checks that the operational import (the fold that mirrors the  *)
(* code) meets the declarative contract, and emits the list with the       *)
(* specified outcome for replay into from_named AND from_named_eq.         *)
(***************************************************************************)
EXTENDS Strategy, Json, IOUtils

MaxPairs == atoi(IOEnv.MAXPAIRS)
MaxEntries == atoi(IOEnv.MAXENTRIES)

\* five games: names are shared between the players on purpose
Games == <<
  << [multi |-> << [name |-> "m1", acts |-> <<"a1", "a2">>] >>,
      single |-> << [name |-> "s1", act |-> "only"] >>],
     [multi |-> << [name |-> "m1", acts |-> <<"a1", "a2", "a3">>] >>,
      single |-> <<>>] >>,
  << [multi |-> << [name |-> "m1", acts |-> <<"a1", "a2">>], [name |-> "m2", acts |-> <<"a1", "a2">>] >>,
      single |-> <<>>],
     [multi |-> <<>>,
      single |-> << [name |-> "s1", act |-> "only"] >>] >>,
  \* a player who never moves: whatever is listed for that player names no infoset of theirs
  << [multi |-> << [name |-> "m1", acts |-> <<"a1", "a2">>] >>,
      single |-> <<>>],
     [multi |-> <<>>,
      single |-> <<>>] >>,
  \* two single-action infosets and nothing else: mentioning one of them twice does not cover the other
  << [multi |-> <<>>,
      single |-> << [name |-> "s1", act |-> "only"], [name |-> "s2", act |-> "only"] >>],
     [multi |-> << [name |-> "m1", acts |-> <<"a1", "a2">>] >>,
      single |-> <<>>] >>,
  \* one action name at DIFFERENT positions of two infosets of one player (legality is per infoset)
  << [multi |-> << [name |-> "m1", acts |-> <<"a1", "a2", "a3">>], [name |-> "m2", acts |-> <<"a2", "a1">>] >>,
      single |-> <<>>],
     [multi |-> << [name |-> "m1", acts |-> <<"a2", "a3">>] >>,
      single |-> <<>>] >>
>>

Slim == IOEnv.SLIM = "1"
\* every infoset name of either player of the game, and a foreign one
InfoAlphabet(gm) == {"zz"} \cup UNION {MultiNames(gm[q]) \cup SingleNames(gm[q]) : q \in 1..2}
ActAlphabet == IF Slim THEN {"a1", "a2", "only", "bad"} ELSE {"a1", "a2", "a3", "only", "bad"}
WeightAlphabet(sc) ==
  LET N(k) == [t |-> "num", k |-> k]
      T(t) == [t |-> t, k |-> 0]
  IN IF sc = "max" THEN {N(-1), N(0), N(1), T("nan")}
     ELSE IF Slim THEN {N(-1), N(0), N(1), N(3), T("inf")}
     ELSE {N(-1), N(0), N(1), N(2), N(3), T("nan"), T("inf"), T("ninf")}

VARIABLES g, scale, lists, cur
vars == <<g, scale, lists, cur>>

\* `cur` is the player whose list is being enumerated; the other player's list is one of a few
\* fixed choices (the two sides are imported independently, player one first)
N1 == [t |-> "num", k |-> 1]
GoodList(side) ==
  [i \in 1..Len(side.multi) |-> [info |-> side.multi[i].name,
                                  acts |-> <<[a |-> side.multi[i].acts[1], w |-> N1]>>]]
  \o [i \in 1..Len(side.single) |-> [info |-> side.single[i].name,
                                      acts |-> <<[a |-> side.single[i].act, w |-> N1]>>]]
OtherChoices(side) == {GoodList(side), <<>>}

NumPairs == SumSeq([n \in 1..Len(lists[cur]) |-> Len(lists[cur][n].acts)])
NumEntries == Len(lists[cur])

Init == /\ g \in 1..Len(Games)
        /\ scale \in IF g \in {3, 4, 5} THEN {"one"}
                     ELSE IF Slim THEN {"one", "max"} \cup (IF g = 1 THEN {"near-third"} ELSE {"tiny"})
                     ELSE {"one", "tiny", "huge", "max", "near-half", "near-third"}
        /\ cur \in 1..2
        /\ \E other \in OtherChoices(Games[g][3 - cur]) :
              lists = [q \in 1..2 |-> IF q = cur THEN <<>> ELSE other]

\* the scale classes other than "one" only with a single entry per player in the slim universe (the
\* specified result does not depend on the scale; what they probe is the arithmetic of one infoset)
NewEntry == /\ NumEntries < (IF Slim /\ scale # "one" THEN 1 ELSE MaxEntries)
            /\ \E info \in InfoAlphabet(Games[g]) :
                 lists' = [lists EXCEPT ![cur] = Append(@, [info |-> info, acts |-> <<>>])]
            /\ UNCHANGED <<g, scale, cur>>

AddPair == /\ NumPairs < MaxPairs
           /\ Len(lists[cur]) > 0
           /\ \E a \in ActAlphabet, w \in WeightAlphabet(scale) :
                lists' = [lists EXCEPT ![cur][Len(lists[cur])].acts = Append(@, [a |-> a, w |-> w])]
           /\ UNCHANGED <<g, scale, cur>>

Next == NewEntry \/ AddPair
Spec == Init /\ [][Next]_vars

Sides == Games[g]

InvContract == ImportMatchesDeclarative(Sides, lists)

\* emitted once per distinct state in which the list is complete (cur = 2)
InvEmit ==
  PrintT(<<"OUT", 0, ToJson([sides |-> Sides, scale |-> scale, lists |-> lists,
                              exp |-> Import(Sides, lists),
                              violated |-> Violated(Sides, lists)])>>)
===============================================================================
