---------------------------------- MODULE Stop ----------------------------------
(***************************************************************************)
(* C09.  The early-termination loop of every solver as a state machine     *)
(* over an abstract sequence of per-iteration total bounds: run iteration  *)
(* it + 1 while it < N and the run has not stopped; after each iteration   *)
(* stop iff the total bound is strictly below the threshold (a comparison  *)
(* with NaN is false).  Theorem: the run ends after exactly                *)
(*   TStar = min({t : Bound[t] < r} \cup {N})                              *)
(* iterations, i.e. a thresholded run is the prefix of length TStar of the *)
(* unthresholded one.                                                      *)
(* Bounds are abstract values with an order: naturals here, float order    *)
(* tokens in Trace_Stop.tla.  NaNR stands for the threshold NaN.           *)
(***************************************************************************)
EXTENDS Naturals, Sequences, FiniteSets

CONSTANTS Runs   \* set of [N, bound (sequence of N naturals), r (a natural or NaNR)]

NaNR == 999

VARIABLES run, it, stopped
vars == <<run, it, stopped>>

Below(b, r) == r # NaNR /\ b < r

Init == run \in Runs /\ it = 0 /\ stopped = FALSE

Iterate == /\ it < run.N /\ ~stopped
           /\ it' = it + 1
           /\ stopped' = Below(run.bound[it + 1], run.r)
           /\ UNCHANGED run

Done == (it = run.N \/ stopped) /\ UNCHANGED vars

Next == Iterate \/ Done
Spec == Init /\ [][Next]_vars /\ WF_vars(Iterate)

Hits(rn) == {t \in 1..rn.N : Below(rn.bound[t], rn.r)}
TStar(rn) == IF Hits(rn) = {} THEN rn.N ELSE CHOOSE t \in Hits(rn) : \A u \in Hits(rn) : t <= u

Finished == it = run.N \/ stopped
\* safety: never beyond the budget, never past the first hit, and when finished exactly at TStar
BudgetRespected == it <= run.N
NeverPastFirstHit == it <= TStar(run)
StopIsPrefix == Finished => it = TStar(run)
ThresholdsNeverShorten == (run.r = NaNR \/ run.r = 0) => (Finished => it = run.N)
\* liveness: every run finishes
Terminates == <>Finished
================================================================================
