------------------------------ MODULE MC_CfrStep2 ------------------------------
(***************************************************************************)
(* C08, two consecutive iterations from an arbitrary state.  The one-step  *)
(* conformance of MC_CfrStep is an induction over the state               *)
(* (cumulative regret, cumulative strategy, current strategy) - it is      *)
(* blind to anything ELSE an implementation carries from one iteration to  *)
(* the next (a "dirty" flag, a cached draw, a stale bound).  Here the      *)
(* documented algorithm runs iterations t and t+1 from the injected state  *)
(* with exact parameters (Cfr.tla, Iterate), and the harness lets the      *)
(* production loop run the same two iterations before extracting.          *)
(***************************************************************************)
EXTENDS Cfr, Json, IOUtils

Cases == ndJsonDeserialize(IOEnv.CASES)

VARIABLES i, done
vars == <<i, done>>
Init == i \in 1..Len(Cases) /\ done = FALSE

ParOf(x) == IF x[1] = "q" THEN Q(Frac(x[2], x[3])) ELSE IF x[1] = "pinf" THEN PInf ELSE NInf
ParamsOf(c) == Params(ParOf(c.par.a), ParOf(c.par.b), ParOf(c.par.g), ParOf(c.par.w))
RatSeq(v) == [j \in 1..Len(v) |-> Frac(v[j][1], v[j][2])]
StateOf(c, tree) == [p \in 1..2 |-> [inf \in InfoNames(tree, p) |->
                       [r |-> RatSeq(c.state[p][inf].r), s |-> RatSeq(c.state[p][inf].s),
                        cur |-> RatSeq(c.state[p][inf].cur),
                        tch |-> \E j \in 1..Len(c.state[p][inf].r) : c.state[p][inf].r[j][1] # 0]]]
DrawOf(d, tree) ==
  [c |-> [lab \in DOMAIN d.c |-> <<Frac(d.c[lab][1][1], d.c[lab][1][2]), Frac(d.c[lab][2][1], d.c[lab][2][2])>>],
   p |-> [q \in 1..2 |-> [inf \in InfoNames(tree, q) |-> Frac(d.p[q][inf][1], d.p[q][inf][2])]]]

Result(c) ==
  LET tree == c.tree
      par == ParamsOf(c)
      t == c.t
      s0 == StateOf(c, tree)
      d1 == DrawOf(c.draws[1], tree)
      d2 == DrawOf(c.draws[2], tree)
  IN IF ~(Exact(par, t) /\ Exact(par, t + 1)) THEN [status |-> "symbolic"]
     ELSE LET s1 == Iterate(tree, s0, c.method, t, par, d1)
          IN IF StatePoisoned(s1) THEN [status |-> "poisoned"]
             ELSE LET s2 == Iterate(tree, s1, c.method, t + 1, par, d2)
                      b1 == BoundOf(s2, 1, t + 1)
                      b2 == BoundOf(s2, 2, t + 1)
                  IN IF StatePoisoned(s2) \/ IsPoison(b1) \/ IsPoison(b2) THEN [status |-> "poisoned"]
                     ELSE [status |-> "ok",
                           tie |-> IterTie(tree, s0, c.method, t, par, d1) \/ IterTie(tree, s1, c.method, t + 1, par, d2),
                           state |-> [p \in 1..2 |-> [inf \in DOMAIN s2[p] |->
                                        [r |-> s2[p][inf].r, s |-> s2[p][inf].s, cur |-> s2[p][inf].cur]]],
                           bounds |-> <<b1, b2>>]

Next == /\ ~done
        /\ done' = TRUE
        /\ UNCHANGED i
        /\ PrintT(<<"OUT", Cases[i].id, ToJson(Result(Cases[i]))>>)
Spec == Init /\ [][Next]_vars
================================================================================
