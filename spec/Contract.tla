------------------------------- MODULE Contract -------------------------------
(***************************************************************************)
(* The documented class of games, as a declarative predicate over raw      *)
(* trees (C11).  Numbers in raw trees are integers; the codes below stand  *)
(* for the non-finite floats (the harness maps them), so that invalid      *)
(* weights and payoffs can be enumerated too.                              *)
(*                                                                         *)
(*   R1  every chance node has at least one outcome                        *)
(*   R2  every chance weight is positive and finite                        *)
(*   R3  chance nodes sharing an infoset have the same outcome             *)
(*       probabilities in the same order                                   *)
(*       (R3s: the sub-case in which one of the two nodes has a single     *)
(*        outcome - see Build.tla, known deviation)                        *)
(*   R4  every decision node has at least one action                       *)
(*   R5  nodes sharing a player infoset list the same actions in the same  *)
(*       order (also between a one-action and a several-action node)       *)
(*   R6  the actions of a decision node are distinct                       *)
(*   R7  perfect recall: all nodes of a (multi-action) infoset are reached *)
(*       by the same sequence of (infoset, action) pairs of the mover;     *)
(*       single-action nodes are neither recorded nor constrained          *)
(*   R8  payoffs are finite                                                *)
(***************************************************************************)
EXTENDS Game

NaNCode == 999001
PInfCode == 999002
NInfCode == 999003
FiniteNum(x) == x > -999000 /\ x < 999000
ValidChanceWeight(w) == w > 0 /\ FiniteNum(w)

\* every occurrence of an internal node with the context the rules talk about
RECURSIVE Occ(_, _)
Occ(t, own) ==
  IF t.k = "T" THEN {[k |-> "T", pay |-> t.pay]}
  ELSE IF t.k = "C" THEN
    {[k |-> "C", ci |-> t.ci, ws |-> [j \in 1..Len(t.kids) |-> t.kids[j].w]]}
      \cup UNION {Occ(t.kids[j].t, own) : j \in 1..Len(t.kids)}
  ELSE
    {[k |-> "P", pl |-> t.pl, info |-> t.info, acts |-> [j \in 1..Len(t.kids) |-> t.kids[j].a],
      own |-> own[t.pl]]}
      \cup UNION {Occ(t.kids[j].t,
                      IF Len(t.kids) >= 2
                      THEN [own EXCEPT ![t.pl] = Append(@, <<t.info, j>>)]
                      ELSE own) : j \in 1..Len(t.kids)}

AllOcc(t) == Occ(t, << <<>>, <<>> >>)

WeightsValid(o) == \A j \in 1..Len(o.ws) : ValidChanceWeight(o.ws[j])
NormProbs(o) == LET tot == SumSeq(o.ws) IN [j \in 1..Len(o.ws) |-> Frac(o.ws[j], tot)]
Distinct(s) == \A i, j \in 1..Len(s) : i # j => s[i] # s[j]

ViolatedRules(t) ==
  LET O == AllOcc(t)
      C == {o \in O : o.k = "C"}
      P == {o \in O : o.k = "P"}
      CV == {o \in C : Len(o.ws) >= 1 /\ WeightsValid(o) /\ o.ci # "none"}
  IN (IF \E o \in C : Len(o.ws) = 0 THEN {"R1"} ELSE {})
     \cup (IF \E o \in C : ~WeightsValid(o) THEN {"R2"} ELSE {})
     \cup (IF \E a, b \in CV : a.ci = b.ci /\ NormProbs(a) # NormProbs(b)
                                /\ Len(a.ws) >= 2 /\ Len(b.ws) >= 2 THEN {"R3"} ELSE {})
     \cup (IF \E a, b \in CV : a.ci = b.ci /\ NormProbs(a) # NormProbs(b)
                                /\ (Len(a.ws) = 1 \/ Len(b.ws) = 1) THEN {"R3s"} ELSE {})
     \cup (IF \E o \in P : Len(o.acts) = 0 THEN {"R4"} ELSE {})
     \cup (IF \E a, b \in P : a.pl = b.pl /\ a.info = b.info /\ a.acts # b.acts
                               /\ Len(a.acts) >= 1 /\ Len(b.acts) >= 1 THEN {"R5"} ELSE {})
     \cup (IF \E o \in P : ~Distinct(o.acts) THEN {"R6"} ELSE {})
     \cup (IF \E a, b \in P : a.pl = b.pl /\ a.info = b.info /\ Len(a.acts) >= 2 /\ Len(b.acts) >= 2
                               /\ a.own # b.own THEN {"R7"} ELSE {})
     \cup (IF \E o \in O : o.k = "T" /\ ~FiniteNum(o.pay) THEN {"R8"} ELSE {})

KindOf(rule) == CASE rule = "R1" -> "EmptyChance"
                  [] rule = "R2" -> "NonPositiveChance"
                  [] rule \in {"R3", "R3s"} -> "ProbabilitiesNotEqual"
                  [] rule = "R4" -> "EmptyPlayer"
                  [] rule = "R5" -> "ActionsNotEqual"
                  [] rule = "R6" -> "ActionsNotUnique"
                  [] rule = "R7" -> "ImperfectRecall"
                  [] OTHER -> "NoErrorKind"

ViolatedKinds(t) == {KindOf(r) : r \in ViolatedRules(t)}
InClass(t) == ViolatedRules(t) = {}
===============================================================================
