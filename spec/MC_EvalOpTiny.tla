----------------------------- MODULE MC_EvalOpTiny -----------------------------
(***************************************************************************)
(* The operational evaluator (Eval.tla) on U-tiny: every tree of           *)
(* MC_Build's universe that Build ACCEPTS (so, with                        *)
(* RecallChecksAction = FALSE, also the trees on which a player forgets    *)
(* its own action) x every profile on the grid {(1,0),(0,1),(1,1)} x each  *)
(* deviator x every resolution order.  With the repaired recall rule all   *)
(* invariants hold; with RecallChecksAction = FALSE TLC exhibits a game on *)
(* which the bottom-up evaluation is wrong (MC_EvalOpTiny_NoAction.cfg):   *)
(* the correctness of the evaluator DEPENDS on the rule that C11 guards.   *)
(***************************************************************************)
EXTENDS MC_Build, Eval

VARIABLES prof, d, ev
ovars == <<vars, prof, d, ev>>

W == {<<1, 0>>, <<0, 1>>, <<1, 1>>}
G == Build(Tree)

OInit == /\ Init
         /\ G.err = "none"
         /\ ViolatedRules(Tree) \subseteq {"R7"}      \* in the class, or only the recall rule is broken
         /\ NumInfosets(Tree) >= 1
         /\ prof \in {<<f1, f2>> : f1 \in [InfoNames(Tree, 1) -> W], f2 \in [InfoNames(Tree, 2) -> W]}
         /\ d \in 1..2
         /\ ev = EvInit(G, Dense(G, prof), d)

OPop == /\ ~ev.done
        /\ \E i \in Ready(G, d, ev) : ev' = EvPop(G, Dense(G, prof), d, ev, i)
        /\ UNCHANGED <<vars, prof, d>>
OFinish == /\ ~ev.done
           /\ Ready(G, d, ev) = {}
           /\ ev' = EvFinish(G, Dense(G, prof), d, ev)
           /\ UNCHANGED <<vars, prof, d>>
ONext == OPop \/ OFinish

OInvNoBadRead == NoBadRead(ev)
OInvNoUnderflow == NoUnderflow(G, d, ev)
OInvLeavesFirst == ResolvedLeavesFirst(G, d, ev)
OInvAllResolved == AllReachedResolved(G, d, ev)
OInvDeclarative == MatchesDeclarative(Tree, prof, d, ev)
================================================================================
