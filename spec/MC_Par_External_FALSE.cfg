SPECIFICATION Spec
CONSTANT MaxNodes = 11
CONSTANT Targets = {6}
CONSTANT Passes = 4
CONSTANT Method = "External"
CONSTANT ClearWorkspace = FALSE
CHECK_DEADLOCK FALSE
INVARIANT InvExactlyOnce
INVARIANT InvNoStaleTask
INVARIANT InvCacheCurrent
INVARIANT InvDisjoint
INVARIANT InvNoLockConflict
