--------------------------------- MODULE MC_Cli ---------------------------------
(***************************************************************************)
(* C15 / C16 / C17: judge recorded runs of the command-line binary.        *)
(* `harness record cli` renders abstract documents (Efg.tla) and raw trees *)
(* as Gambit / JSON text, runs the binary and writes one case per run.     *)
(* kind "out": the run printed a result object.  TLC computes the meaning  *)
(*   of the document, checks that the printed strategies are over the      *)
(*   game's information sets and actions (NamesOK) and are distributions   *)
(*   (DistOK), evaluates the PRINTED strategies exactly on the game AS     *)
(*   WRITTEN (each player's own payoffs) and prints the utilities and      *)
(*   regrets the object must show; for the unsampled method with a budget  *)
(*   the exact model reaches it also runs Cfr.tla and the clip rule and    *)
(*   prints the strategies the object must show.                           *)
(* kind "verdict": TLC prints the admissible diagnostic categories of the  *)
(*   input under the parser that the options select ({} = must be solved). *)
(***************************************************************************)
EXTENDS Cli, Json, IOUtils

Cases == ndJsonDeserialize(IOEnv.CASES)

VARIABLES i, done
vars == <<i, done>>
Init == i \in 1..Len(Cases) /\ done = FALSE

\* the zero-sum tree of the case with payoffs multiplied by `f`, the constant sum S and the scale
GameOf(c) == IF c.fmt = "efg" THEN [t |-> Meaning2(c.doc), f |-> 2, S |-> SumOf(c.doc), scale |-> c.doc.scale]
             ELSE IF c.fmt = "jdoc" THEN [t |-> JState(c.jdoc, c.scale, c.wscale).t, f |-> 1, S |-> 0, scale |-> c.scale]
             ELSE [t |-> c.tree, f |-> 1, S |-> 0, scale |-> c.scale]

MaxNodes == 30
NoDraws(T) == [k \in 1..T |-> 0]
AllExact(par, T) == \A t \in 1..T : Exact(par, t)
RECURSIVE AnyTie(_, _, _, _)
AnyTie(tree, par, T, k) ==
  IF k = 0 THEN FALSE
  ELSE AnyTie(tree, par, T, k - 1)
         \/ IterTie(tree, Run(tree, "Full", par, T, NoDraws(T), k - 1), "Full", k, par, 0)

\* what the object must show for the unsampled method (exact budgets only)
TieIn(tree, st, k, par) == IterTie(tree, st, "Full", k, par, 0)
Expected(c, g) ==
  LET par == PresetOf(c.args.d)
      T == c.args.t
  IN IF c.args.m # "full" \/ T = 0 \/ T > 3 \/ ~AllExact(par, T) \/ NodeCount(g.t) > MaxNodes THEN [status |-> "not-exact"]
     ELSE LET r == RMul(Frac(c.args.r[1], c.args.r[2]), R(g.f * g.scale))   \* the threshold in the units of g.t
              \* the states after 0..3 iterations (each evaluated at most once)
              s0 == InitState(g.t)
              s1 == Iterate(g.t, s0, "Full", 1, par, 0)
              s2 == Iterate(g.t, s1, "Full", 2, par, 0)
              s3 == Iterate(g.t, s2, "Full", 3, par, 0)
              S(t) == IF t = 0 THEN s0 ELSE IF t = 1 THEN s1 ELSE IF t = 2 THEN s2 ELSE s3
              Total(t) == RMax(BoundOf(S(t), 1, t), BoundOf(S(t), 2, t))
              \* the run stops after the first iteration whose total bound is strictly below the threshold
              Hits == {t \in 1..T : ~StatePoisoned(S(t)) /\ RLt(Total(t), r)}
              Tstop == IF Hits = {} THEN T ELSE CHOOSE t \in Hits : \A u \in Hits : t <= u
              st == S(Tstop)
          IN IF (\E t \in 1..Tstop : StatePoisoned(S(t)) \/ IsPoison(Total(t))) THEN [status |-> "poisoned"]
             ELSE IF (\E t \in 1..Tstop : TieIn(g.t, S(t - 1), t, par) \/ Total(t) = r) THEN [status |-> "tie"]
             ELSE LET avg == AverageProfile(st)
                      ch == ClipChoice(g.t, avg, Frac(c.args.c[1], c.args.c[2]))
                  IN IF ~ch.ok THEN [status |-> "poisoned"]
                     ELSE IF ClipTie(avg, Frac(c.args.c[1], c.args.c[2])) THEN [status |-> "tie"]
                     ELSE [status |-> "ok", clipped |-> ch.clipped, margin |-> ch.margin, iterations |-> Tstop,
                           printed |-> PrintedOf(g.t, ch.prof)]

OutResult(c) ==
  LET g == GameOf(c)
      names == \A p \in 1..2 : NamesOK(g.t, p, c.strat[p])
  IN IF c.fmt = "jdoc" /\ ~JState(c.jdoc, c.scale, c.wscale).ok THEN [names_ok |-> FALSE, meaning |-> FALSE]
     ELSE IF ~names THEN [names_ok |-> FALSE]
     ELSE LET prof == ProfileOf(g.t, c.strat)
              wp == WeightProfile(prof)
              ev == IF c.exact /\ WeightsOK(wp) THEN Evaluate(g.t, wp) ELSE [poisoned |-> TRUE]
              den == g.f * g.scale
              half == R(g.S * (g.f \div 2))
              \* own expected payoffs: one = (util + S) / (f scale) ... in units of 1: (util/f + S/2) / scale
              u1 == IF ev.poisoned THEN Poison ELSE RDiv(RAdd(ev.util, half), R(den))
              u2 == IF ev.poisoned THEN Poison ELSE RDiv(RSub(half, ev.util), R(den))
              r1 == IF ev.poisoned THEN Poison ELSE RDiv(ev.r1, R(den))
              r2 == IF ev.poisoned THEN Poison ELSE RDiv(ev.r2, R(den))
              tot == IF ev.poisoned THEN Poison ELSE RDiv(ev.total, R(den))
              \* the exact arithmetic may overflow 32 bits in the last step too: then nothing is claimed
              allok == ~ev.poisoned /\ ~IsPoison(u1) /\ ~IsPoison(u2) /\ ~IsPoison(r1) /\ ~IsPoison(r2) /\ ~IsPoison(tot)
          IN [names_ok |-> TRUE,
              dist_ok |-> (~c.exact \/ (\A p \in 1..2 : DistOK(c.strat[p]))),
              evaluated |-> allok,
              u1 |-> IF allok THEN u1 ELSE Zero,
              u2 |-> IF allok THEN u2 ELSE Zero,
              r1 |-> IF allok THEN r1 ELSE Zero,
              r2 |-> IF allok THEN r2 ELSE Zero,
              total |-> IF allok THEN tot ELSE Zero,
              expected |-> Expected(c, g)]

VerdictResult(c) ==
  IF c.class = "jdoc"
  THEN LET a == JsonAdmissible(Parser(c.flag, c.src, c.ext), c.jdoc, c.scale, c.wscale)
       IN [parser |-> Parser(c.flag, c.src, c.ext), categories |-> a.cats, solve_admissible |-> a.solve,
           grammar |-> JStrict(c.jdoc), in_language |-> JState(c.jdoc, c.scale, c.wscale).ok]
  ELSE LET cats == Categories(Parser(c.flag, c.src, c.ext), c.class, IF c.class = "efg" THEN c.doc ELSE 0)
       IN [parser |-> Parser(c.flag, c.src, c.ext), categories |-> cats, solve_admissible |-> cats = {}]

Next == /\ ~done
        /\ done' = TRUE
        /\ UNCHANGED i
        /\ PrintT(<<"OUT", Cases[i].id,
                    ToJson(IF Cases[i].kind = "out" THEN OutResult(Cases[i]) ELSE VerdictResult(Cases[i]))>>)
Spec == Init /\ [][Next]_vars
=================================================================================
