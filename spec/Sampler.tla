-------------------------------- MODULE Sampler --------------------------------
(***************************************************************************)
(* The categorical sampler and the once-per-pass draw cache (C10, C07).    *)
(*                                                                         *)
(* Sample(w, u): w a sequence of probabilities (rationals summing to one), *)
(* u a uniform variate in [0, 1): the index k whose cumulative-probability *)
(* interval contains u.  The implementation walks all but the last         *)
(* probability; at an exact interval endpoint the property does not say    *)
(* which side wins, so both are admissible there (SampleSet).              *)
(***************************************************************************)
EXTENDS Rat

RECURSIVE Cum(_, _)
Cum(w, k) == IF k = 0 THEN Zero ELSE RAdd(Cum(w, k - 1), w[k])

\* the k with Cum(k-1) <= u < Cum(k); the last index if rounding leaves a gap
Sample(w, u) ==
  IF \E k \in 1..Len(w) : RLt(u, Cum(w, k))
  THEN CHOOSE k \in 1..Len(w) : RLt(u, Cum(w, k)) /\ \A j \in 1..(k - 1) : ~RLt(u, Cum(w, j))
  ELSE Len(w)

\* admissible results when u may sit exactly on an endpoint
SampleSet(w, u) ==
  {k \in 1..Len(w) : /\ RLe(Cum(w, k - 1), u)
                     /\ (RLe(u, Cum(w, k)) \/ k = Len(w))
                     /\ (k = Len(w) \/ TRUE)}

OnEndpoint(w, u) == \E k \in 1..(Len(w) - 1) : u = Cum(w, k)

\* the draw cache of a chance infoset / an opponent infoset: 0 = nothing cached, k + 1 = outcome k
CacheInit == 0
CacheSample(cache, k) == IF cache = 0 THEN [cache |-> k + 1, out |-> k, drew |-> TRUE]
                                      ELSE [cache |-> cache, out |-> cache - 1, drew |-> FALSE]
CacheReset(cache) == 0
================================================================================
