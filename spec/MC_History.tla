------------------------------- MODULE MC_History -------------------------------
(***************************************************************************)
(* A strategy profile as a stateful OBJECT (C01, C18, C13 together): the   *)
(* abstract state is the dense rational profile; the operations of the     *)
(* public API move it -                                                    *)
(*   eval        observes (utility, regrets) - must be the exact           *)
(*               evaluation of the CURRENT state, whatever happened before *)
(*   trunc(h)    replaces the state by Truncate(state, h)                  *)
(*   clone       continues on a copy (same state)                          *)
(*   reimport    continues on from_named(as_named(object)) (same state)    *)
(* and, with OPSET = "pair", a SECOND object (a snapshot, initially a      *)
(* clone of the first):                                                    *)
(*   snap        the snapshot becomes a clone of the object                *)
(*   swap        continue on the snapshot, the object becomes the snapshot *)
(*   dist        observes distance(object, snapshot, 1) - must be the      *)
(*               exact distance of the two CURRENT states: nothing one     *)
(*               object undergoes may show in the other                    *)
(* TLC enumerates every operation sequence of length Depth over three      *)
(* thresholds on each seeded (game, profile) and prints the behaviour with *)
(* the exact observation after every step; `harness replay history` steps  *)
(* ONE real object through the same sequence and compares after each step. *)
(* This is where state that survives an operation it should not survive    *)
(* (a memoised evaluation, a stale length) shows.                          *)
(***************************************************************************)
EXTENDS Cli, Json, IOUtils

Cases == ndJsonDeserialize(IOEnv.CASES)
Depth == atoi(IOEnv.DEPTH)

Thresholds == <<<<1, 4>>, <<1, 2>>, <<3, 5>>>>
Pair == "OPSET" \in DOMAIN IOEnv /\ IOEnv.OPSET = "pair"
Ops == IF Pair THEN {"eval", "t1", "t3", "snap", "swap", "dist"} ELSE {"eval", "t1", "t2", "t3", "clone", "reimport"}

VARIABLES c, obj, snap, hist, fragile
vars == <<c, obj, snap, hist, fragile>>

Tree(i) == Cases[i].tree
Start(i) == [p \in 1..2 |-> [n \in InfoNames(Tree(i), p) |->
               LET w == Cases[i].prof[p][n] IN [j \in 1..Len(w) |-> Frac(w[j], SumSeq(w))]]]

Init == c \in 1..Len(Cases) /\ obj = Start(c) /\ snap = Start(c) /\ hist = <<>> /\ fragile = FALSE

\* A truncation whose threshold EQUALS a current probability is decided by rounding in floating point once
\* the probability is the result of an earlier rescaling (0.375 / 0.625 need not be the double 0.6): from
\* then on the real object may legitimately be in either state, and observations are not judged.
AtThreshold(o, h) == \E p \in 1..2 : \E n \in DOMAIN o[p] : \E j \in 1..Len(o[p][n]) : o[p][n][j] = h
ThresholdOf(op) == IF op = "t1" THEN Thresholds[1] ELSE IF op = "t2" THEN Thresholds[2] ELSE Thresholds[3]

Observe(i, o) == LET wp == WeightProfile(o)
                 IN IF WeightsOK(wp) THEN Evaluate(Tree(i), wp) ELSE [poisoned |-> TRUE]

\* distance with exponent 1 (lib.rs): per player, the sum of |x - y| over all cells divided by twice the number of
\* (multi-action) infosets; zero for a player without infosets
RAbs1(x) == IF x[1] < 0 THEN RNeg(x) ELSE x
DistOf(o, s) ==
  [p \in 1..2 |->
     IF DOMAIN o[p] = {} THEN Zero
     ELSE LET names == DOMAIN o[p]
              per(n) == RSumSeq([j \in 1..Len(o[p][n]) |-> RAbs1(RSub(o[p][n][j], s[p][n][j]))])
              RECURSIVE Sum(_)
              Sum(S) == IF S = {} THEN Zero ELSE LET n == CHOOSE x \in S : TRUE IN RAdd(per(n), Sum(S \ {n}))
          IN RDiv(Sum(names), R(2 * Cardinality(names)))]
DistObs(o, s) == LET d == DistOf(o, s)
                 IN IF IsPoison(d[1]) \/ IsPoison(d[2]) THEN [poisoned |-> TRUE]
                    ELSE [poisoned |-> FALSE, d1 |-> d[1], d2 |-> d[2]]

Step(op) ==
  /\ Len(hist) < Depth
  /\ obj' = IF op = "t1" THEN Clipped(obj, Thresholds[1])
            ELSE IF op = "t2" THEN Clipped(obj, Thresholds[2])
            ELSE IF op = "t3" THEN Clipped(obj, Thresholds[3])
            ELSE IF op = "swap" THEN snap
            ELSE obj
  /\ snap' = IF op \in {"snap", "swap"} THEN obj ELSE snap
  /\ fragile' = (fragile \/ (op \in {"t1", "t2", "t3"} /\ AtThreshold(obj, ThresholdOf(op))))
  /\ hist' = Append(hist, [op |-> op, obs |-> IF op = "eval" /\ ~fragile THEN Observe(c, obj)
                                             ELSE IF op = "dist" /\ ~fragile THEN DistObs(obj, snap)
                                             ELSE [poisoned |-> TRUE]])
  /\ UNCHANGED c

Next == \E op \in Ops : Step(op)
Spec == Init /\ [][Next]_vars

\* a behaviour is worth replaying if it observes after having mutated (and ends with an observation)
Interesting == /\ Len(hist) = Depth /\ hist[Depth].op \in {"eval", "dist"}
               /\ \E j \in 1..(Depth - 1) : hist[j].op \in {"t1", "t2", "t3"}
               /\ (Pair => \E j \in 1..Depth : hist[j].op \in {"snap", "swap", "dist"})
Emit == Interesting => PrintT(<<"OUT", Cases[c].id, ToJson([id |-> Cases[c].id, hist |-> hist])>>)
\* the state is a profile after every operation
StateIsProfile == \A p \in 1..2 : \A n \in DOMAIN obj[p] : RSumSeq(obj[p][n]) = One
=================================================================================
