---------------------------- MODULE MC_BuildCases ----------------------------
(***************************************************************************)
(* C11 on U-edit (and any other file of raw trees): for every tree written *)
(* by the harness, evaluate Contract.tla (violated rules) and Build.tla     *)
(* (specified verdict, error kind and compact game), check the theorems    *)
(* relating them, and print the result for replay into Game::from_root.    *)
(***************************************************************************)
EXTENDS Build, Json, IOUtils

Cases == ndJsonDeserialize(IOEnv.CASES)

VARIABLES i, done
vars == <<i, done>>

Init == i \in 1..Len(Cases) /\ done = FALSE
Tree == Cases[i].tree

Next == /\ ~done
        /\ done' = TRUE
        /\ UNCHANGED i
        /\ PrintT(<<"OUT", Cases[i].id, ToJson([tree |-> Tree, build |-> Build(Tree),
               rules |-> ViolatedRules(Tree), kinds |-> ViolatedKinds(Tree),
               edit |-> Cases[i].edit, node |-> Cases[i].node])>>)
Spec == Init /\ [][Next]_vars

\* checked in the second state so that the work is spread over the workers
InvVerdict == done => VerdictMatchesContract(Tree)
InvErrorKind == done => ErrorNamesViolatedRule(Tree)
InvSemantics == done => CompactPreservesSemantics(Tree)
InvCount == done => InfosetCountMatches(Tree)
===============================================================================
