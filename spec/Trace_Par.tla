-------------------------------- MODULE Trace_Par --------------------------------
(***************************************************************************)
(* Trace validation for C06 / C07 / C10 (impl -> spec).  `harness record   *)
(* par` solves games with 1..16 threads with the event hooks on and logs,  *)
(* per solve, the compact game (`game` event) and, per pass, one `pass`    *)
(* event: the updating player, the draws made in the pass (site, infoset,  *)
(* outcome), the frontier returned by thread_threshold (queue and work as  *)
(* node ids), the nodes entered (uncached visits, with multiplicity), the  *)
(* cache hits and the results of the lock attempts.                        *)
(* The specification accepts a pass iff                                    *)
(*   - at most one draw was made per infoset, only at sites the method     *)
(*     allows (Full: none; Sampled: chance; External: chance and the       *)
(*     non-updating player), with an index inside the infoset              *)
(*   - the logged frontier IS the one Par.tla computes from an empty       *)
(*     workspace (so nothing of an earlier pass leaked into it)            *)
(*   - the nodes entered are exactly the nodes of the (sampled) tree the   *)
(*     sequential pass enters, each exactly once; in particular every      *)
(*     chance node of an infoset followed the one outcome drawn            *)
(*   - the cache hits are exactly the task roots, every lock attempt       *)
(*     succeeded.                                                          *)
(***************************************************************************)
EXTENDS Par, Json, IOUtils, Integers

Rec == ndJsonDeserialize(IOEnv.TRACE)

VARIABLES l, g
tvars == <<l, g>>

IsEvent(e) == l <= Len(Rec) /\ Rec[l].e = e /\ l' = l + 1

TraceInit == l = 2 /\ Rec[1].e = "game" /\ g = Rec[1]
GameEv == IsEvent("game") /\ g' = Rec[l]

\* the draws of a pass as a function site -> infoset -> outcome (1-based); 0 = no draw
DrawOf(r, site, info) ==
  LET S == {j \in 1..Len(r.draws) : r.draws[j].site = site /\ r.draws[j].info = info}
  IN IF S = {} THEN 0 ELSE r.draws[CHOOSE j \in S : TRUE].ix
SiteOf(n) == IF g.kind[n] = "C" THEN "C" ELSE IF g.pl[n] = 1 THEN "P1" ELSE "P2"
PickOf(r) == [n \in 1..Len(g.kids) |->
               IF g.kind[n] = "T" THEN 1
               ELSE LET d == DrawOf(r, SiteOf(n), g.info[n]) IN IF d = 0 THEN 1 ELSE d]

DrawsOK(r) ==
  /\ \A i, j \in 1..Len(r.draws) :
        (i # j) => ~(r.draws[i].site = r.draws[j].site /\ r.draws[i].info = r.draws[j].info)
  /\ \A j \in 1..Len(r.draws) :
        /\ (g.method = "Full" => FALSE)
        /\ (g.method = "Sampled" => r.draws[j].site = "C")
        /\ (g.method = "External" => r.draws[j].site \in {"C", IF r.q = 1 THEN "P2" ELSE "P1"})
        /\ \E n \in 1..Len(g.kids) : SiteOf(n) = r.draws[j].site /\ g.kind[n] # "T"
                                       /\ g.info[n] = r.draws[j].info /\ r.draws[j].ix \in 1..Len(g.kids[n])

\* every sampled node that was entered had its infoset drawn in this pass
Sampled(r, n) == \/ (g.kind[n] = "C" /\ g.method # "Full")
                 \/ (g.kind[n] = "P" /\ g.method = "External" /\ g.pl[n] # r.q)
DrawnWhereNeeded(r) ==
  \A j \in 1..Len(r.entered) : Sampled(r, r.entered[j]) => DrawOf(r, SiteOf(r.entered[j]), g.info[r.entered[j]]) # 0

Count(s, x) == Cardinality({j \in 1..Len(s) : s[j] = x})

\* the compact game keeps the DECLARED chance infosets apart: two chance nodes share an infoset iff they were declared
\* with the same label (a chance node declared without an infoset is an infoset of its own; `decl` comes from the raw
\* tree, `info` from the game the library built)
DeclOK == \A n, m \in 1..Len(g.kids) :
            (g.kind[n] = "C" /\ g.kind[m] = "C") => ((g.info[n] = g.info[m]) <=> (g.decl[n] = g.decl[m]))

PassOK(r) ==
  LET pick == PickOf(r)
      seq == Sequential(g, g.method, r.q, pick)
  IN /\ DeclOK
     /\ DrawsOK(r)
     /\ DrawnWhereNeeded(r)
     /\ \A n \in 1..Len(g.kids) : Count(r.entered, n) = (IF n \in seq THEN 1 ELSE 0)
     /\ \A j \in 1..Len(r.locks) : r.locks[j]
     /\ (g.k >= 2 =>
           LET t == Threshold(g, g.method, r.q, pick, g.target, <<>>)
           IN /\ r.queue = t.queue
              /\ r.work = t.work
              /\ {r.hits[j] : j \in 1..Len(r.hits)} = CacheHits(g, g.method, r.q, pick, Range(r.queue), 1)
              /\ \A n \in Range(r.hits) : Count(r.hits, n) = 1
              /\ \A n \in 1..Len(g.kids) : Count(r.tasks, n) = Count(r.queue, n))
     /\ (g.k = 1 => r.hits = <<>>)

PassEv == IsEvent("pass") /\ PassOK(Rec[l]) /\ UNCHANGED g

TraceNext == GameEv \/ PassEv
TraceSpec == TraceInit /\ [][TraceNext]_tvars

TraceAccepted ==
  LET d == TLCGet("stats").diameter
  IN IF d = Len(Rec) THEN TRUE
     ELSE /\ PrintT(<<"REJECT", d + 1, ToJson(Rec[d + 1])>>)
          /\ FALSE
==================================================================================
