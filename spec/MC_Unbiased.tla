------------------------------ MODULE MC_Unbiased ------------------------------
(***************************************************************************)
(* C04, the design-level lemma behind the convergence of the sampled       *)
(* methods (Lanctot et al. 2009): for every game, every current profile    *)
(* and every infoset and action, the EXPECTATION over the sampler's draws  *)
(* of the sampled regret increment of one pass equals the unsampled        *)
(* counterfactual regret increment.  Checked exactly by TLC, enumerating   *)
(* every combination of chance outcomes (and, for external sampling, of    *)
(* opponent actions) with its probability, on the cases of `harness gen    *)
(* step` (game + arbitrary current strategies).                            *)
(* The lemma needs the draws at different chance infosets of one path to   *)
(* be independent: a chance infoset that repeats along a path is drawn     *)
(* once (Sampler.tla) and the lemma fails there - see HasRepeat.           *)
(***************************************************************************)
EXTENDS Cfr, Json, IOUtils

Cases == ndJsonDeserialize(IOEnv.CASES)

VARIABLES i, done
vars == <<i, done>>
Init == i \in 1..Len(Cases) /\ done = FALSE

RatSeq(v) == [j \in 1..Len(v) |-> Frac(v[j][1], v[j][2])]
StateOf(c, tree) == [p \in 1..2 |-> [inf \in InfoNames(tree, p) |->
                       [r |-> RatSeq(c.state[p][inf].r), s |-> RatSeq(c.state[p][inf].s),
                        cur |-> RatSeq(c.state[p][inf].cur),
                        tch |-> \E j \in 1..Len(c.state[p][inf].r) : c.state[p][inf].r[j][1] # 0]]]

\* several-outcome chance infosets: label -> probabilities
RECURSIVE ChanceInfos(_)
ChanceInfos(n) ==
  IF n.k = "T" THEN {}
  ELSE LET below == UNION {ChanceInfos(n.kids[j].t) : j \in 1..Len(n.kids)}
       IN IF n.k = "C" /\ Len(n.kids) >= 2 THEN below \cup {<<n.ci, ChanceProbs(n)>>} ELSE below

RECURSIVE HasRepeatFrom(_, _)
HasRepeatFrom(n, seen) ==
  IF n.k = "T" THEN FALSE
  ELSE IF n.k = "C" /\ Len(n.kids) >= 2
       THEN n.ci \in seen \/ \E j \in 1..Len(n.kids) : HasRepeatFrom(n.kids[j].t, seen \cup {n.ci})
  ELSE \E j \in 1..Len(n.kids) : HasRepeatFrom(n.kids[j].t, seen)
HasRepeat(tree) == HasRepeatFrom(tree, {})

\* a variate in the middle of the k-th interval of the distribution w
Mid(w, k) == RMul(<<1, 2>>, RAdd(Cum(w, k - 1), Cum(w, k)))

Labels(tree) == {x[1] : x \in ChanceInfos(tree)}
ProbsOf(tree, lab) == (CHOOSE x \in ChanceInfos(tree) : x[1] = lab)[2]
ChanceAssignments(tree) ==
  {f \in [Labels(tree) -> 1..4] : \A lab \in Labels(tree) : f[lab] <= Len(ProbsOf(tree, lab))}
ChanceWeight(tree, f) ==
  LET RECURSIVE W(_)
      W(S) == IF S = {} THEN One
              ELSE LET lab == CHOOSE x \in S : TRUE
                   IN RMul(ProbsOf(tree, lab)[f[lab]], W(S \ {lab}))
  IN W(Labels(tree))

\* opponent action assignments (external sampling, updating player q): infoset -> action
OppAssignments(tree, q) ==
  LET names == InfoNames(tree, Other(q))
  IN {g \in [names -> 1..4] : \A inf \in names : g[inf] <= NumActs(tree, Other(q), inf)}
OppWeight(tree, st, q, g) ==
  LET RECURSIVE W(_)
      W(S) == IF S = {} THEN One
              ELSE LET inf == CHOOSE x \in S : TRUE
                   IN RMul(st[Other(q)][inf].cur[g[inf]], W(S \ {inf}))
  IN W(InfoNames(tree, Other(q)))

DrawFor(tree, st, f, g, q) ==
  [c |-> [lab \in Labels(tree) |-> <<Mid(ProbsOf(tree, lab), f[lab]), Mid(ProbsOf(tree, lab), f[lab])>>],
   p |-> [pl \in 1..2 |-> [inf \in InfoNames(tree, pl) |->
            IF pl = Other(q) THEN Mid(st[pl][inf].cur, g[inf]) ELSE Zero]]]

\* regret increments of a pass as a function (player, infoset) -> vector
Incr(tree, cs) == [p \in 1..2 |-> [inf \in InfoNames(tree, p) |->
                     SumField(cs, p, inf, ZeroVec(NumActs(tree, p, inf)), "dr")]]
Scale(x, v) == [j \in 1..Len(v) |-> RMul(x, v[j])]

FullIncr(tree, st) == Incr(tree, VContrib(tree, st, FALSE, [c |-> <<>>, p |-> <<>>], One, <<One, One>>))

\* expectation of the chance-sampled increments
SampledExpect(tree, st) ==
  LET F == ChanceAssignments(tree)
      RECURSIVE Acc(_)
      Acc(S) == IF S = {} THEN [p \in 1..2 |-> [inf \in InfoNames(tree, p) |-> ZeroVec(NumActs(tree, p, inf))]]
                ELSE LET f == CHOOSE x \in S : TRUE
                         rest == Acc(S \ {f})
                         g0 == [inf \in {} |-> 1]
                         one == Incr(tree, VContrib(tree, st, TRUE, DrawFor(tree, st, f, g0, 0), One, <<One, One>>))
                         w == ChanceWeight(tree, f)
                     IN [p \in 1..2 |-> [inf \in InfoNames(tree, p) |-> VAdd(rest[p][inf], Scale(w, one[p][inf]))]]
  IN Acc(F)

\* expectation of the external-sampled increments of the updating player q
ExternalExpect(tree, st, q) ==
  LET FG == {<<f, g>> : f \in ChanceAssignments(tree), g \in OppAssignments(tree, q)}
      RECURSIVE Acc(_)
      Acc(S) == IF S = {} THEN [inf \in InfoNames(tree, q) |-> ZeroVec(NumActs(tree, q, inf))]
                ELSE LET fg == CHOOSE x \in S : TRUE
                         rest == Acc(S \ {fg})
                         one == Incr(tree, EContrib(tree, st, q, DrawFor(tree, st, fg[1], fg[2], q), 1))
                         w == RMul(ChanceWeight(tree, fg[1]), OppWeight(tree, st, q, fg[2]))
                     IN [inf \in InfoNames(tree, q) |-> VAdd(rest[inf], Scale(w, one[q][inf]))]
  IN Acc(FG)

\* the sign convention of the full pass: player two's increments are from player two's side already
Unbiased(c) ==
  LET tree == c.tree
      st == StateOf(c, tree)
      full == FullIncr(tree, st)
      poisoned(x) == \E p \in 1..2 : \E inf \in InfoNames(tree, p) : AnyPoison(x[p][inf])
      small == Cardinality(ChanceAssignments(tree)) * Cardinality(OppAssignments(tree, 1)) <= 600
                 /\ Cardinality(ChanceAssignments(tree)) * Cardinality(OppAssignments(tree, 2)) <= 600
  IN IF ~small THEN [status |-> "large"]
     ELSE LET se == SampledExpect(tree, st)
              e1 == ExternalExpect(tree, st, 1)
              e2 == ExternalExpect(tree, st, 2)
          IN IF poisoned(full) \/ poisoned(se) \/ AnyPoison(Concat([k \in 1..1 |-> <<>>])) THEN [status |-> "poisoned"]
             ELSE [status |-> "ok", repeat |-> HasRepeat(tree),
                   sampled |-> se = full,
                   ext1 |-> \A inf \in InfoNames(tree, 1) : AnyPoison(e1[inf]) \/ e1[inf] = full[1][inf],
                   ext2 |-> \A inf \in InfoNames(tree, 2) : AnyPoison(e2[inf]) \/ e2[inf] = full[2][inf]]

Next == /\ ~done
        /\ done' = TRUE
        /\ UNCHANGED i
        /\ LET res == Unbiased(Cases[i])
           IN /\ Assert(res.status # "ok" \/ res.repeat \/ (res.sampled /\ res.ext1 /\ res.ext2),
                        <<"Unbiased fails in the model", Cases[i].id, res>>)
              /\ PrintT(<<"OUT", Cases[i].id, ToJson(res)>>)
Spec == Init /\ [][Next]_vars
================================================================================
