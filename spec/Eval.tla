--------------------------------- MODULE Eval ---------------------------------
(***************************************************************************)
(* Operational model of the evaluator (regret.rs, C01): how the best       *)
(* response value of one player (the deviator d) against a fixed profile   *)
(* is computed bottom-up over the compact game g (Build.tla).              *)
(*                                                                         *)
(*   collect   one traversal with reach = chance x opponent probability    *)
(*             (the deviator's own actions keep the reach, opponent        *)
(*             actions of probability zero are not followed).  Every       *)
(*             reached node of the deviator is recorded under its infoset  *)
(*             and counted as PENDING at the infoset's previous infoset    *)
(*             (the link stored in the compact game, not the node's        *)
(*             actual ancestor).                                           *)
(*   Pop(i)    enabled when infoset i has recorded nodes, is unresolved    *)
(*             and nothing is pending at it.  Its value becomes            *)
(*             max_a sum_nodes Search(child a) x reach  /  sum reach,      *)
(*             and the previous infoset's pending count drops by the       *)
(*             number of nodes of i.                                       *)
(*   Search(n) expected continuation value from n: terminals +-payoff,     *)
(*             chance and opponent nodes expand, a node of the deviator    *)
(*             contributes the VALUE OF ITS INFOSET - which must be        *)
(*             resolved by then, otherwise the default 0 would be read     *)
(*             (the code only has a debug assertion there).                *)
(*   Finish    when nothing can be popped: result = Search(root).          *)
(*                                                                         *)
(* The order in which ready infosets are popped is left open here (the     *)
(* code uses a stack); the invariants below hold for every order.          *)
(* They rest on perfect recall INCLUDING the action (rule R7): TLC finds   *)
(* counterexamples on the games that Build accepts with                    *)
(* RecallChecksAction = FALSE.                                             *)
(***************************************************************************)
EXTENDS Build

\* dense profile of the compact game from integer weights of the raw tree's infosets
Dense(g, prof) ==
  [p \in 1..2 |-> [i \in 1..Len(g.multi[p]) |->
     LET w == prof[p][g.multi[p][i].name] IN [j \in 1..Len(w) |-> Frac(w[j], SumSeq(w))]]]

RECURSIVE Flat(_)
Flat(ss) == IF ss = <<>> THEN <<>> ELSE Head(ss) \o Flat(Tail(ss))

\* ------------------------------------------------------------------ collect
\* the recorded (infoset, reach) pairs of the deviator's reached nodes, as a sequence (one entry per node)
RECURSIVE Collect(_, _, _, _, _)
Collect(n, g, sigma, d, reach) ==
  IF n.k = "T" THEN <<>>
  ELSE IF n.k = "C" THEN
    Flat([j \in 1..Len(n.kids) |-> Collect(n.kids[j], g, sigma, d, RMul(reach, g.chance[n.ci][j]))])
  ELSE IF n.pl = d THEN
    <<[info |-> n.info, node |-> n, reach |-> reach]>>
      \o Flat([j \in 1..Len(n.kids) |-> Collect(n.kids[j], g, sigma, d, reach)])
  ELSE Flat([j \in 1..Len(n.kids) |->
         IF sigma[n.pl][n.info][j] = Zero THEN <<>>
         ELSE Collect(n.kids[j], g, sigma, d, RMul(reach, sigma[n.pl][n.info][j]))])

Infos(g, d) == 1..Len(g.multi[d])
Prev(g, d, i) == g.multi[d][i].prev
NodesOf(rec, i) == SelectSeq(rec, LAMBDA r : r.info = i)

EvInit(g, sigma, d) ==
  LET rec == Collect(g.root, g, sigma, d, One)
  IN [rec |-> rec,
      pending |-> [i \in Infos(g, d) |->
                     Cardinality({k \in 1..Len(rec) : Prev(g, d, rec[k].info) = i})],
      resolved |-> {},
      value |-> [i \in Infos(g, d) |-> Zero],
      badread |-> FALSE,      \* some Search read the value of an unresolved infoset
      done |-> FALSE,
      result |-> Zero]

\* ------------------------------------------------------------------ search
\* <<value, ok>>: ok = every infoset of the deviator met was resolved
RECURSIVE Search(_, _, _, _, _, _)
Search(n, g, sigma, d, ev, reach) ==
  IF n.k = "T" THEN <<RMul(reach, IF d = 1 THEN R(n.pay) ELSE R(-n.pay)), TRUE>>
  ELSE IF n.k = "C" THEN
    LET rs == [j \in 1..Len(n.kids) |-> Search(n.kids[j], g, sigma, d, ev, RMul(reach, g.chance[n.ci][j]))]
    IN <<RSumSeq([j \in 1..Len(rs) |-> rs[j][1]]), \A j \in 1..Len(rs) : rs[j][2]>>
  ELSE IF n.pl = d THEN <<RMul(reach, ev.value[n.info]), n.info \in ev.resolved>>
  ELSE LET rs == [j \in 1..Len(n.kids) |->
                    IF sigma[n.pl][n.info][j] = Zero THEN <<Zero, TRUE>>
                    ELSE Search(n.kids[j], g, sigma, d, ev, RMul(reach, sigma[n.pl][n.info][j]))]
       IN <<RSumSeq([j \in 1..Len(rs) |-> rs[j][1]]), \A j \in 1..Len(rs) : rs[j][2]>>

\* ------------------------------------------------------------------ pop / finish
Ready(g, d, ev) == {i \in Infos(g, d) : i \notin ev.resolved /\ ev.pending[i] = 0 /\ NodesOf(ev.rec, i) # <<>>}

EvPop(g, sigma, d, ev, i) ==
  LET ns == NodesOf(ev.rec, i)
      total == RSumSeq([k \in 1..Len(ns) |-> ns[k].reach])
      nacts == Len(g.multi[d][i].acts)
      per == [a \in 1..nacts |-> [k \in 1..Len(ns) |-> Search(ns[k].node.kids[a], g, sigma, d, ev, ns[k].reach)]]
      pay == [a \in 1..nacts |-> RSumSeq([k \in 1..Len(ns) |-> per[a][k][1]])]
      ok == \A a \in 1..nacts : \A k \in 1..Len(ns) : per[a][k][2]
      pv == Prev(g, d, i)
  IN [ev EXCEPT !.resolved = @ \cup {i},
                !.value[i] = RDiv(RMaxSeq(pay), total),
                !.badread = @ \/ ~ok,
                !.pending = IF pv = 0 THEN @ ELSE [@ EXCEPT ![pv] = @ - Len(ns)]]

EvFinish(g, sigma, d, ev) ==
  LET r == Search(g.root, g, sigma, d, ev, One)
  IN [ev EXCEPT !.done = TRUE, !.result = r[1], !.badread = @ \/ ~r[2]]

\* ------------------------------------------------------------------ invariants (any pop order)
NoBadRead(ev) == ~ev.badread
NoUnderflow(g, d, ev) == \A i \in Infos(g, d) : ev.pending[i] >= 0
\* an infoset is resolved only after every infoset that has it as previous infoset and was reached
ResolvedLeavesFirst(g, d, ev) ==
  \A i \in ev.resolved : \A j \in Infos(g, d) :
     (Prev(g, d, j) = i /\ NodesOf(ev.rec, j) # <<>>) => j \in ev.resolved
AllReachedResolved(g, d, ev) ==
  ev.done => \A i \in Infos(g, d) : NodesOf(ev.rec, i) # <<>> => i \in ev.resolved
\* the value computed is the best response value of the declarative semantics (raw tree t, profile prof)
MatchesDeclarative(t, prof, d, ev) ==
  ev.done => LET br == BestResponse(t, d, prof) IN IsPoison(br) \/ IsPoison(ev.result) \/ ev.result = br
================================================================================
