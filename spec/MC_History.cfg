SPECIFICATION Spec
CHECK_DEADLOCK FALSE
INVARIANT Emit
INVARIANT StateIsProfile
