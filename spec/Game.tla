--------------------------------- MODULE Game ---------------------------------
(***************************************************************************)
(* What a game MEANS.  Declarative semantics of a two-player zero-sum      *)
(* extensive-form game given as a raw tree (the presentation handed to     *)
(* Game::from_root), independent of how the implementation compacts or     *)
(* evaluates it.                                                           *)
(*                                                                         *)
(* Raw tree (nested records; this is also the JSON shape used by the       *)
(* harness):                                                               *)
(*   [k |-> "T", pay |-> Int]                                              *)
(*   [k |-> "C", ci |-> "none" | label, kids |-> << [w |-> Int, t |-> tree], ... >>]  *)
(*   [k |-> "P", pl |-> 1 | 2, info |-> label,                             *)
(*                               kids |-> << [a |-> label, t |-> tree], ... >>]      *)
(*                                                                         *)
(* A profile is a pair of records: prof[p][info] is the tuple of integer   *)
(* weights of the actions of p's infoset `info` (probability = weight /    *)
(* total).  Decision nodes with one action are played with probability 1   *)
(* and need no entry.                                                      *)
(***************************************************************************)
EXTENDS Rat, FiniteSets, TLC

Other(p) == 3 - p

\* ---------------------------------------------------------------- structure
RECURSIVE NodeCount(_)
NodeCount(t) ==
  IF t.k = "T" THEN 1
  ELSE 1 + SumSeq([j \in 1..Len(t.kids) |-> NodeCount(t.kids[j].t)])

\* the set of <<info, number of actions>> of player p's decision nodes with >= 2 actions
RECURSIVE MultiInfos(_, _)
MultiInfos(t, p) ==
  IF t.k = "T" THEN {}
  ELSE LET below == UNION {MultiInfos(t.kids[j].t, p) : j \in 1..Len(t.kids)}
       IN IF t.k = "P" /\ t.pl = p /\ Len(t.kids) >= 2
          THEN below \cup {<<t.info, Len(t.kids)>>} ELSE below

InfoNames(t, p) == {x[1] : x \in MultiInfos(t, p)}
NumActs(t, p, info) == (CHOOSE x \in MultiInfos(t, p) : x[1] = info)[2]

RECURSIVE Payoffs(_)
Payoffs(t) == IF t.k = "T" THEN {t.pay}
              ELSE UNION {Payoffs(t.kids[j].t) : j \in 1..Len(t.kids)}

SetMax(S) == CHOOSE x \in S : \A y \in S : y <= x
SetMin(S) == CHOOSE x \in S : \A y \in S : x <= y

\* statistics used by the convergence envelopes (C03, C04)
PayoffRange(t) == SetMax(Payoffs(t)) - SetMin(Payoffs(t))
NumInfosets(t) == Cardinality(MultiInfos(t, 1)) + Cardinality(MultiInfos(t, 2))
MaxActions(t) == LET S == {x[2] : x \in MultiInfos(t, 1) \cup MultiInfos(t, 2)}
                 IN IF S = {} THEN 1 ELSE SetMax(S)

\* ------------------------------------------------------------- probabilities
ChanceTotal(t) == SumSeq([j \in 1..Len(t.kids) |-> t.kids[j].w])
ChanceProb(t, j) == Frac(t.kids[j].w, ChanceTotal(t))

ActProb(t, prof, j) ==
  IF Len(t.kids) = 1 THEN One
  ELSE LET w == prof[t.pl][t.info] IN Frac(w[j], SumSeq(w))

\* --------------------------------------------------------- expected utility
\* expected payoff to player one under the profile
RECURSIVE EU(_, _)
EU(t, prof) ==
  IF t.k = "T" THEN R(t.pay)
  ELSE IF t.k = "C" THEN
    RSumSeq([j \in 1..Len(t.kids) |-> RMul(ChanceProb(t, j), EU(t.kids[j].t, prof))])
  ELSE
    RSumSeq([j \in 1..Len(t.kids) |->
       LET pr == ActProb(t, prof, j)
       IN IF pr[1] = 0 THEN Zero ELSE RMul(pr, EU(t.kids[j].t, prof))])

\* ------------------------------------------------- brute-force best response
\* all pure strategies of player p: one action index per multi-action infoset
Pure(t, p) ==
  LET names == InfoNames(t, p)
      maxa == MaxActions(t)
  IN {f \in [names -> 1..maxa] : \A i \in names : f[i] <= NumActs(t, p, i)}

\* payoff to player p when p plays the pure strategy f and the opponent plays prof
RECURSIVE DevVal(_, _, _, _)
DevVal(t, p, f, prof) ==
  IF t.k = "T" THEN IF p = 1 THEN R(t.pay) ELSE R(-t.pay)
  ELSE IF t.k = "C" THEN
    RSumSeq([j \in 1..Len(t.kids) |-> RMul(ChanceProb(t, j), DevVal(t.kids[j].t, p, f, prof))])
  ELSE IF t.pl = p THEN
    IF Len(t.kids) = 1 THEN DevVal(t.kids[1].t, p, f, prof)
    ELSE DevVal(t.kids[f[t.info]].t, p, f, prof)
  ELSE
    RSumSeq([j \in 1..Len(t.kids) |->
       LET pr == ActProb(t, prof, j)
       IN IF pr[1] = 0 THEN Zero ELSE RMul(pr, DevVal(t.kids[j].t, p, f, prof))])

RMaxSet(S) == IF \E x \in S : IsPoison(x) THEN Poison
              ELSE IF \E x, y \in S : ~CmpOK(x, y) THEN Poison
              ELSE CHOOSE x \in S : \A y \in S : RLe(y, x)

BestResponse(t, p, prof) == RMaxSet({DevVal(t, p, f, prof) : f \in Pure(t, p)})

Utility(t, p, prof) == IF p = 1 THEN EU(t, prof) ELSE RNeg(EU(t, prof))

\* the largest gain of player p from a unilateral deviation, zero if there is none
Regret(t, p, prof) ==
  LET br == BestResponse(t, p, prof)
      u == Utility(t, p, prof)
  IN IF IsPoison(br) \/ IsPoison(u) THEN Poison ELSE RPos(RSub(br, u))

TotalRegret(t, prof) == RMax(Regret(t, 1, prof), Regret(t, 2, prof))

\* everything the evaluation reports, as one record
Evaluate(t, prof) ==
  LET u == EU(t, prof)
      r1 == Regret(t, 1, prof)
      r2 == Regret(t, 2, prof)
  IN [util |-> u, r1 |-> r1, r2 |-> r2, total |-> RMax(r1, r2),
      poisoned |-> IsPoison(u) \/ IsPoison(r1) \/ IsPoison(r2)]
===============================================================================
