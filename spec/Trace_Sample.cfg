SPECIFICATION SSpec
CHECK_DEADLOCK FALSE
POSTCONDITION TraceAccepted
