SPECIFICATION Spec
CONSTANT LenCountsCells = TRUE
CONSTANT Games <- MCGames
CHECK_DEADLOCK FALSE
PROPERTY OuterLenExact
PROPERTY InnerLenExact
INVARIANT OuterZeroIffDone
INVARIANT InnerZeroIffDone
