------------------------------ MODULE Trace_Sample ------------------------------
(***************************************************************************)
(* Trace validation for C10 (impl -> spec).  `harness record sample` runs  *)
(* the three solvers with LIVE randomness (production generator, nothing   *)
(* pinned) and the hooks in observer mode.  Events:                        *)
(*   game   the compact game, the method, the DECLARED integer weights of  *)
(*          every chance infoset (cw) and the action counts (nacts)        *)
(*   begin  one solve starts: number of passes; the injected current       *)
(*          strategies (cur) if the run starts from an injected state; the *)
(*          current strategies at the end of the solve (final)             *)
(*   pass   as in Trace_Par, every draw with the weights presented to the  *)
(*          sampler (w, exact rationals) and the pass counter of its site  *)
(*   freq   end of a batch: the outcome counts tallied BY THIS             *)
(*          SPECIFICATION from the pass events are tested                  *)
(* Accepted iff every pass satisfies PassOK of Trace_Par (draws only at    *)
(* the sites the method allows - none for Full, chance only for Sampled,   *)
(* chance and the non-updating player for External; at most one draw per   *)
(* infoset and pass; every sampled node entered has a draw of this pass;   *)
(* the nodes entered are exactly the tree obtained by following, at every  *)
(* node of an infoset, the one outcome drawn for it), and                  *)
(*   WeightsOK   a chance draw was made from the declared weights          *)
(*               (normalised); a player draw from the player's current     *)
(*               strategy wherever that is known exactly (the injected or  *)
(*               initial uniform strategy in the first pass, the final     *)
(*               strategy in the last pass), and always from a             *)
(*               distribution over the infoset's actions                   *)
(*   DrawnPossible  the outcome drawn has a positive weight                *)
(*   CounterOK   the draw belongs to this pass: its site's cache was reset *)
(*               exactly once per completed pass / advance                 *)
(*   FreqOK      for every (site kind, weight vector) tallied at least 200 *)
(*               times: no outcome of weight zero occurred and Pearson's   *)
(*               chi-square statistic of the counts against the weights is *)
(*               below the 1 - 1e-9 quantile (integer arithmetic)          *)
(***************************************************************************)
EXTENDS Trace_Par, Rat, Float

VARIABLES b, np, tally, pairs
svars == <<l, g, b, np, tally, pairs>>

NoTally == [key \in {} |-> <<>>]

SInit == /\ l = 2 /\ Rec[1].e = "game" /\ g = Rec[1]
         /\ b = [passes |-> 0, inj |-> FALSE] /\ np = 0 /\ tally = NoTally /\ pairs = NoTally

SGame == IsEvent("game") /\ g' = Rec[l] /\ UNCHANGED <<b, np, tally, pairs>>
SBegin == IsEvent("begin") /\ np = b.passes /\ b' = Rec[l] /\ np' = 0 /\ UNCHANGED <<g, tally, pairs>>

\* ------------------------------------------------------------------ weights
AsRat(x) == <<x[1], x[2]>>
RatSeq(w) == [j \in 1..Len(w) |-> AsRat(w[j])]
IsDist(w) == /\ \A j \in 1..Len(w) : w[j][2] > 0 /\ w[j][1] >= 0
             /\ RSumSeq(RatSeq(w)) = One
Declared(ci) == LET w == g.cw[ci] IN [j \in 1..Len(w) |-> Frac(w[j], SumSeq(w))]
Uniform(n) == [j \in 1..n |-> Frac(1, n)]
PlayerIx(site) == IF site = "P1" THEN 1 ELSE 2

\* a weight vector that is not a tuple of small rationals is logged in micro-units (exact = FALSE)
ApproxDist(w) == /\ \A j \in 1..Len(w) : w[j][1] >= 0 /\ w[j][2] = 1000000
                 /\ SumSeq([j \in 1..Len(w) |-> w[j][1]]) \in (1000000 - Len(w))..(1000000 + Len(w))
WeightsOK(r, d) ==
  IF d.site = "C" THEN d.exact /\ RatSeq(d.w) = Declared(d.info)
  ELSE LET p == PlayerIx(d.site)
       IN /\ Len(d.w) = g.nacts[p][d.info]
          /\ (IF d.exact THEN IsDist(d.w) ELSE ApproxDist(d.w))
          /\ (np = 0 => d.exact /\ RatSeq(d.w) = (IF b.inj THEN RatSeq(b.cur[p][d.info]) ELSE Uniform(Len(d.w))))
          /\ (np + 1 = b.passes /\ "final" \in DOMAIN b => RatSeq(d.w) = RatSeq(b.final[p][d.info]))

\* an outcome of weight zero is never drawn (decided on the floating-point weights presented to the sampler: `pos`; and on
\* the exact weights where they are logged exactly)
DrawnPossible(d) == /\ d.pos = 1
                    /\ (d.exact => d.w[d.ix][1] > 0)

\* the reset counter of the draw's site: chance caches are reset after every pass; in the external
\* method a player's cache is reset when that player is advanced, i.e. after its own pass
CounterOK(r, d) ==
  IF d.site = "C" THEN d.pass = np
  ELSE IF d.site = "P2" THEN d.pass = np \div 2      \* drawn in player one's passes (np even)
  ELSE d.pass = (np + 1) \div 2                      \* drawn in player two's passes (np odd)

\* ------------------------------------------------------------------ tallies
Kind(site) == IF site = "C" THEN "C" ELSE "P"
KeyOf(d) == <<Kind(d.site), RatSeq(d.w)>>
Cap == 1000
Bump(t, d) ==
  LET key == KeyOf(d)
      old == IF key \in DOMAIN t THEN t[key] ELSE [j \in 1..Len(d.w) |-> 0]
  IN IF SumSeq(old) >= Cap \/ ~d.exact THEN t
     ELSE [k \in (DOMAIN t) \cup {key} |-> IF k = key THEN [old EXCEPT ![d.ix] = @ + 1] ELSE t[k]]
RECURSIVE BumpAll(_, _, _)
BumpAll(t, ds, j) == IF j > Len(ds) THEN t ELSE BumpAll(Bump(t, ds[j]), ds, j + 1)

\* ---- independence across infosets: two draws of one pass made at DIFFERENT infosets of one kind from the same
\* distribution agree with probability sum p_i^2; tallied as <<agreements, pairs>> per distribution
PairKey(d) == <<Kind(d.site), RatSeq(d.w)>>
BumpPair(t, d, e) ==
  LET key == PairKey(d)
      old == IF key \in DOMAIN t THEN t[key] ELSE <<0, 0>>
  IN IF old[2] >= Cap THEN t
     ELSE [k \in (DOMAIN t) \cup {key} |-> IF k = key THEN <<old[1] + (IF d.ix = e.ix THEN 1 ELSE 0), old[2] + 1>> ELSE t[k]]
PairsOf(ds) == {<<i, j>> \in (1..Len(ds)) \X (1..Len(ds)) :
                  /\ i < j /\ ds[i].exact /\ ds[j].exact
                  /\ Kind(ds[i].site) = Kind(ds[j].site) /\ <<ds[i].site, ds[i].info>> # <<ds[j].site, ds[j].info>>
                  /\ RatSeq(ds[i].w) = RatSeq(ds[j].w)}
RECURSIVE BumpPairs(_, _, _)
BumpPairs(t, ds, S) == IF S = {} THEN t
                       ELSE LET p == CHOOSE x \in S : TRUE IN BumpPairs(BumpPair(t, ds[p[1]], ds[p[2]]), ds, S \ {p})
\* binomial test at the 1 - 1e-9 level (6.2 standard deviations; the bound is rounded up): never a false alarm
PairKeyOK(key, c) ==
  LET w == key[2]
      q == RSumSeq([j \in 1..Len(w) |-> RMul(w[j], w[j])])
      n == c[2]
  IN \/ n < 100 \/ IsPoison(q) \/ q[2] > 100 \/ q = One
     \/ LET dev == c[1] * q[2] - n * q[1]
            lim == SqrtCeil(39 * n * q[1] * (q[2] - q[1])) + 1
        IN dev <= lim /\ -dev <= lim

SPass == /\ IsEvent("pass")
         /\ np < b.passes
         \* "= TRUE": evaluate as a plain predicate (TLC would otherwise split disjunctions into successors)
         /\ PassOK(Rec[l]) = TRUE
         /\ (\A j \in 1..Len(Rec[l].draws) : WeightsOK(Rec[l], Rec[l].draws[j]) /\ CounterOK(Rec[l], Rec[l].draws[j])
                                              /\ DrawnPossible(Rec[l].draws[j])) = TRUE
         /\ np' = np + 1
         /\ tally' = BumpAll(tally, Rec[l].draws, 1)
         /\ pairs' = BumpPairs(pairs, Rec[l].draws, PairsOf(Rec[l].draws))
         /\ UNCHANGED <<g, b>>

\* ------------------------------------------------------------------ frequencies
\* 1 - 1e-9 quantiles of chi-square with 1..11 degrees of freedom, rounded up
Crit(dof) == <<38, 42, 46, 49, 52, 54, 56, 59, 61, 63, 66>>[dof]
\* integer weights of a rational distribution over a common denominator W
Lcm(a, c) == (a \div GCD(a, c)) * c
RECURSIVE LcmSeq(_)
LcmSeq(w) == IF w = <<>> THEN 1 ELSE Lcm(Head(w)[2], LcmSeq(Tail(w)))
\* chi2 * n * W = sum_i (W o_i - n w_i)^2 / w_i  (each term rounded DOWN: never a false alarm)
FreqKeyOK(key, counts) ==
  LET w == key[2]
      W == LcmSeq(w)
      iw == [j \in 1..Len(w) |-> w[j][1] * (W \div w[j][2])]
      n == SumSeq(counts)
      support == {j \in 1..Len(w) : iw[j] > 0}
      dof == Cardinality(support) - 1
  IN \/ n < 200 \/ W > 20 \/ dof > 11 \/ dof < 1
     \/ /\ \A j \in 1..Len(w) : iw[j] = 0 => counts[j] = 0
        /\ SumSeq([j \in 1..Len(w) |->
                     IF iw[j] = 0 THEN 0
                     ELSE ((W * counts[j] - n * iw[j]) * (W * counts[j] - n * iw[j])) \div iw[j]])
             <= Crit(dof) * n * W
Tested(t) == {key \in DOMAIN t : SumSeq(t[key]) >= 200 /\ LcmSeq(key[2]) <= 20}
SFreq == /\ IsEvent("freq")
         /\ (\A key \in DOMAIN tally : FreqKeyOK(key, tally[key])) = TRUE
         /\ (\A key \in DOMAIN pairs : PairKeyOK(key, pairs[key])) = TRUE
         /\ PrintT(<<"PAIRS", l, ToJson({[kind |-> key[1], w |-> key[2], agree |-> pairs[key][1], n |-> pairs[key][2]] : key \in {k \in DOMAIN pairs : pairs[k][2] >= 100}})>>)
         /\ PrintT(<<"FREQ", l, ToJson([tested |-> {[kind |-> key[1], w |-> key[2], counts |-> tally[key]] : key \in Tested(tally)}])>>)
         /\ tally' = NoTally /\ pairs' = NoTally
         /\ UNCHANGED <<g, b, np>>

\* the unsampled method makes no random draw: the same call made twice returned bitwise the same profile and bounds
SRepeat == IsEvent("repeat") /\ Rec[l].same /\ UNCHANGED <<g, b, np, tally, pairs>>

SNext == SGame \/ SBegin \/ SPass \/ SFreq \/ SRepeat
SSpec == SInit /\ [][SNext]_svars
=================================================================================
