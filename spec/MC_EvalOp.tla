------------------------------- MODULE MC_EvalOp -------------------------------
(***************************************************************************)
(* The operational evaluator (Eval.tla) on seeded games: for every case    *)
(* (raw tree, integer profile) of `harness gen eval` and each deviator,    *)
(* TLC explores EVERY order in which ready infosets can be resolved and    *)
(* checks that no unresolved value is ever read, pending counts never      *)
(* underflow, infosets are resolved leaves-first, every reached infoset    *)
(* gets resolved, and the result is the declarative best-response value    *)
(* (Game.tla, brute force over pure strategies).                           *)
(***************************************************************************)
EXTENDS Eval, Json, IOUtils

Cases == ndJsonDeserialize(IOEnv.CASES)

VARIABLES c, d, ev
vars == <<c, d, ev>>

T(i) == Cases[i].tree
G(i) == Build(T(i))
Sigma(i) == Dense(G(i), Cases[i].prof)

Init == /\ c \in 1..Len(Cases)
        /\ d \in 1..2
        /\ G(c).err = "none"
        /\ ev = EvInit(G(c), Sigma(c), d)

Pop == /\ ~ev.done
       /\ \E i \in Ready(G(c), d, ev) : ev' = EvPop(G(c), Sigma(c), d, ev, i)
       /\ UNCHANGED <<c, d>>
Finish == /\ ~ev.done
          /\ Ready(G(c), d, ev) = {}
          /\ ev' = EvFinish(G(c), Sigma(c), d, ev)
          /\ UNCHANGED <<c, d>>
Next == Pop \/ Finish
Spec == Init /\ [][Next]_vars

InvNoBadRead == NoBadRead(ev)
InvNoUnderflow == NoUnderflow(G(c), d, ev)
InvLeavesFirst == ResolvedLeavesFirst(G(c), d, ev)
InvAllResolved == AllReachedResolved(G(c), d, ev)
InvDeclarative == MatchesDeclarative(T(c), Cases[c].prof, d, ev)
================================================================================
