------------------------------- MODULE Transform -------------------------------
(***************************************************************************)
(* Alternative presentations of one game (C12) as operators on raw trees   *)
(* (Game.tla), and what each one must do to evaluations and to the         *)
(* deterministic solver's results.                                         *)
(*                                                                         *)
(* A transformation x is a record                                          *)
(*   [kind |-> ..., nodes |-> set of preorder indices (root = 1),          *)
(*    c |-> positive integer, pl |-> 1 | 2]                                *)
(* kinds acting on the nodes in x.nodes                                    *)
(*   "rescale"  the weights of a chance node are multiplied by c           *)
(*   "wrapc"    a chance node with the single outcome (weight c) is put    *)
(*              above the node                                             *)
(*   "wrapp"    a decision node of player pl with the single action        *)
(*              "only" is put above the node; its infoset name x.name is   *)
(*              "wrap" or the name of an information set of the OTHER      *)
(*              player (names are per player)                              *)
(* kinds acting on the whole tree                                          *)
(*   "strip"    every single-outcome chance node and every single-action   *)
(*              decision node is removed                                   *)
(*   "rename"   infosets, actions and chance infosets are renamed          *)
(*              injectively (the renaming reverses the alphabetical order  *)
(*              of the actions)                                            *)
(*   "scale"    payoffs multiplied by c                                    *)
(*   "shift"    c added to every payoff                                    *)
(*   "swap"     the players exchange roles and payoffs are negated         *)
(***************************************************************************)
EXTENDS Game

\* preorder index of child j of the node t whose own index is idx
KidIdx(t, idx, j) == idx + 1 + SumSeq([k \in 1..(j - 1) |-> NodeCount(t.kids[k].t)])

RenInfo(i) == "R." \o i
RenChance(c) == IF c = "none" THEN "none" ELSE "K." \o c
RenAct(a) == IF a = "a0" THEN "q3" ELSE IF a = "a1" THEN "q2" ELSE IF a = "a2" THEN "q1"
             ELSE IF a = "a3" THEN "q0" ELSE "r." \o a

RECURSIVE XTree(_, _, _)
XTree(t, idx, x) ==
  LET kids2 == IF t.k = "T" THEN <<>>
               ELSE [j \in 1..Len(t.kids) |-> XTree(t.kids[j].t, KidIdx(t, idx, j), x)]
      here == idx \in x.nodes
      self ==
        IF t.k = "T" THEN
          [k |-> "T", pay |-> IF x.kind = "scale" THEN t.pay * x.c
                              ELSE IF x.kind = "shift" THEN t.pay + x.c
                              ELSE IF x.kind = "swap" THEN -t.pay ELSE t.pay]
        ELSE IF t.k = "C" THEN
          [k |-> "C", ci |-> IF x.kind = "rename" THEN RenChance(t.ci) ELSE t.ci,
           kids |-> [j \in 1..Len(t.kids) |->
                       [w |-> IF x.kind = "rescale" /\ here THEN t.kids[j].w * x.c ELSE t.kids[j].w,
                        t |-> kids2[j]]]]
        ELSE
          [k |-> "P", pl |-> IF x.kind = "swap" THEN Other(t.pl) ELSE t.pl,
           info |-> IF x.kind = "rename" THEN RenInfo(t.info) ELSE t.info,
           kids |-> [j \in 1..Len(t.kids) |->
                       [a |-> IF x.kind = "rename" THEN RenAct(t.kids[j].a) ELSE t.kids[j].a,
                        t |-> kids2[j]]]]
  IN IF x.kind = "strip" /\ t.k # "T" /\ Len(t.kids) = 1 THEN kids2[1]
     ELSE IF x.kind = "wrapc" /\ here THEN [k |-> "C", ci |-> "none", kids |-> <<[w |-> x.c, t |-> self]>>]
     ELSE IF x.kind = "wrapp" /\ here
          THEN [k |-> "P", pl |-> x.pl, info |-> x.name, kids |-> <<[a |-> "only", t |-> self]>>]
     ELSE self

Present(t, x) == XTree(t, 1, x)

\* the corresponding profile of the transformed game (same integer weights)
XProfile(t, prof, x) ==
  IF x.kind = "rename"
  THEN [p \in 1..2 |-> [i \in {RenInfo(n) : n \in InfoNames(t, p)} |->
                           prof[p][CHOOSE n \in InfoNames(t, p) : RenInfo(n) = i]]]
  ELSE IF x.kind = "swap" THEN <<prof[2], prof[1]>>
  ELSE prof

\* the name an infoset of player p of the original game has in the transformed game, and its owner
InfoImage(x, p, i) == [p |-> IF x.kind = "swap" THEN Other(p) ELSE p,
                       i |-> IF x.kind = "rename" THEN RenInfo(i) ELSE i]

\* ------------------------------------------------ what must hold (the theorems of C12)
\* e, e2: Evaluate of the original / transformed game on corresponding profiles
EvalRelated(x, e, e2) ==
  IF x.kind = "scale"
  THEN /\ e2.util = RMul(R(x.c), e.util) /\ e2.r1 = RMul(R(x.c), e.r1)
       /\ e2.r2 = RMul(R(x.c), e.r2) /\ e2.total = RMul(R(x.c), e.total)
  ELSE IF x.kind = "shift"
  THEN e2.util = RAdd(e.util, R(x.c)) /\ e2.r1 = e.r1 /\ e2.r2 = e.r2 /\ e2.total = e.total
  ELSE IF x.kind = "swap"
  THEN e2.util = RNeg(e.util) /\ e2.r1 = e.r2 /\ e2.r2 = e.r1 /\ e2.total = e.total
  ELSE e2.util = e.util /\ e2.r1 = e.r1 /\ e2.r2 = e.r2 /\ e2.total = e.total

\* avg, avg2: returned average profiles; b, b2: returned bounds <<one, two>>
SolveRelated(t, x, avg, avg2, b, b2) ==
  /\ \A p \in 1..2 : \A i \in InfoNames(t, p) :
        LET im == InfoImage(x, p, i) IN im.i \in DOMAIN avg2[im.p] /\ avg2[im.p][im.i] = avg[p][i]
  /\ \A p \in 1..2 : LET q == IF x.kind = "swap" THEN Other(p) ELSE p
                     IN b2[q] = IF x.kind = "scale" THEN RMul(R(x.c), b[p]) ELSE b[p]
================================================================================
