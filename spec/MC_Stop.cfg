SPECIFICATION Spec
CONSTANT Runs <- MCRuns
CHECK_DEADLOCK FALSE
INVARIANT BudgetRespected
INVARIANT NeverPastFirstHit
INVARIANT StopIsPrefix
INVARIANT ThresholdsNeverShorten
PROPERTY Terminates
