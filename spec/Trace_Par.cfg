SPECIFICATION TraceSpec
CHECK_DEADLOCK FALSE
POSTCONDITION TraceAccepted
