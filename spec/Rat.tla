--------------------------------- MODULE Rat ---------------------------------
(***************************************************************************)
(* Exact rationals for TLC.  A rational is a pair <<n, d>> with d > 0 and  *)
(* gcd(|n|, d) = 1.  TLC integers are 32 bit and overflow is a run-time    *)
(* error, so every product and sum is guarded: an operation whose exact    *)
(* result (or an intermediate) would leave the 32-bit range returns the    *)
(* value Poison = <<0, 0>>, and Poison is absorbing.  A case whose result   *)
(* is Poison is dropped (and counted) by the driver, never judged.         *)
(***************************************************************************)
EXTENDS Integers, Sequences

MaxInt == 2147483647

Abs(x) == IF x < 0 THEN -x ELSE x

RECURSIVE GCD(_, _)
GCD(a, b) == IF b = 0 THEN a ELSE GCD(b, a % b)        \* a, b >= 0

MulOK(a, b) == a = 0 \/ b = 0 \/ Abs(a) <= MaxInt \div Abs(b)
AddOK(a, b) == IF a >= 0 /\ b >= 0 THEN a <= MaxInt - b
               ELSE IF a < 0 /\ b < 0 THEN -MaxInt - b <= a
               ELSE TRUE

Poison == <<0, 0>>
IsPoison(r) == r[2] = 0
Ok(r) == r[2] # 0

Zero == <<0, 1>>
One  == <<1, 1>>
R(n) == <<n, 1>>

\* normalise n/d for d > 0
Norm(n, d) == LET g == GCD(Abs(n), d) IN <<n \div g, d \div g>>

\* n/d for any integer d # 0
Frac(n, d) == IF d = 0 THEN Poison
              ELSE IF d < 0 THEN Norm(-n, -d) ELSE Norm(n, d)

RMul(x, y) ==
  IF IsPoison(x) \/ IsPoison(y) THEN Poison
  ELSE IF x[1] = 0 \/ y[1] = 0 THEN Zero
  ELSE LET g1 == GCD(Abs(x[1]), y[2])
           g2 == GCD(Abs(y[1]), x[2])
           a == x[1] \div g1
           b == y[1] \div g2
           c == x[2] \div g2
           e == y[2] \div g1
       IN IF MulOK(a, b) /\ MulOK(c, e) THEN <<a * b, c * e>> ELSE Poison

RAdd(x, y) ==
  IF IsPoison(x) \/ IsPoison(y) THEN Poison
  ELSE IF x[1] = 0 THEN y
  ELSE IF y[1] = 0 THEN x
  ELSE LET g == GCD(x[2], y[2])
           xs == y[2] \div g
           ys == x[2] \div g
       IN IF MulOK(x[1], xs) /\ MulOK(y[1], ys) /\ MulOK(x[2], xs)
          THEN LET a == x[1] * xs
                   b == y[1] * ys
               IN IF AddOK(a, b) THEN Norm(a + b, x[2] * xs) ELSE Poison
          ELSE Poison

RNeg(x) == <<-x[1], x[2]>>
RSub(x, y) == RAdd(x, RNeg(y))

RInv(x) == IF IsPoison(x) \/ x[1] = 0 THEN Poison
           ELSE IF x[1] < 0 THEN <<-x[2], -x[1]>> ELSE <<x[2], x[1]>>
RDiv(x, y) == RMul(x, RInv(y))

\* comparisons of non-poison operands; exact and overflow free: cross multiplication when it fits
\* in 32 bits, otherwise a continued-fraction comparison (integer parts, then the reciprocals of
\* the fractional parts in reverse order)
RECURSIVE CmpPos(_, _, _, _)
CmpPos(a, b, c, d) ==            \* sign of a/b - c/d for a, c >= 0 and b, d > 0
  LET qa == a \div b
      qc == c \div d
      ra == a % b
      rc == c % d
  IN IF qa # qc THEN (IF qa < qc THEN -1 ELSE 1)
     ELSE IF ra = 0 /\ rc = 0 THEN 0
     ELSE IF ra = 0 THEN -1
     ELSE IF rc = 0 THEN 1
     ELSE -CmpPos(b, ra, d, rc)

RCmp(x, y) ==
  IF MulOK(x[1], y[2]) /\ MulOK(y[1], x[2])
  THEN LET l == x[1] * y[2]
           r == y[1] * x[2]
       IN IF l < r THEN -1 ELSE IF l > r THEN 1 ELSE 0
  ELSE IF x[1] >= 0 /\ y[1] < 0 THEN 1
  ELSE IF x[1] < 0 /\ y[1] >= 0 THEN -1
  ELSE IF x[1] >= 0 THEN CmpPos(x[1], x[2], y[1], y[2])
  ELSE CmpPos(-y[1], y[2], -x[1], x[2])

CmpOK(x, y) == Ok(x) /\ Ok(y)
RLt(x, y) == RCmp(x, y) < 0
RLe(x, y) == RCmp(x, y) <= 0
REq(x, y) == x = y
RSign(x) == IF x[1] > 0 THEN 1 ELSE IF x[1] < 0 THEN -1 ELSE 0
RMax(x, y) == IF IsPoison(x) \/ IsPoison(y) \/ ~CmpOK(x, y) THEN Poison
              ELSE IF RLt(x, y) THEN y ELSE x
RMin(x, y) == IF IsPoison(x) \/ IsPoison(y) \/ ~CmpOK(x, y) THEN Poison
              ELSE IF RLt(y, x) THEN y ELSE x
RPos(x) == RMax(x, Zero)

\* folds over sequences of rationals
RECURSIVE RSumSeq(_)
RSumSeq(s) == IF s = <<>> THEN Zero ELSE RAdd(Head(s), RSumSeq(Tail(s)))
RECURSIVE RMaxSeq(_)
RMaxSeq(s) == IF Len(s) = 1 THEN s[1] ELSE RMax(Head(s), RMaxSeq(Tail(s)))
RECURSIVE RMinSeq(_)
RMinSeq(s) == IF Len(s) = 1 THEN s[1] ELSE RMin(Head(s), RMinSeq(Tail(s)))
AnyPoison(s) == \E j \in 1..Len(s) : IsPoison(s[j])

\* integer sequences
RECURSIVE SumSeq(_)
SumSeq(s) == IF s = <<>> THEN 0 ELSE Head(s) + SumSeq(Tail(s))

\* x ^ k for a natural k
RECURSIVE RPow(_, _)
RPow(x, k) == IF k = 0 THEN One ELSE RMul(x, RPow(x, k - 1))
===============================================================================
