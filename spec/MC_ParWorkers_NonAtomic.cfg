SPECIFICATION Spec
CONSTANT UseMutex = TRUE
CONSTANT SharedScratch = FALSE
CONSTANT AtomicAdd = FALSE
CONSTANT TryLock = FALSE
INVARIANT ParEqualsSeq
INVARIANT NoLostStrategyUpdate
INVARIANT LockFree
INVARIANT NoDeadlock
INVARIANT NoPanic
PROPERTY Terminates
CHECK_DEADLOCK FALSE
