SPECIFICATION TraceSpec
CHECK_DEADLOCK FALSE
POSTCONDITION TraceAccepted
CONSTANT RecallChecksAction = TRUE
CONSTANT SingleMultiClash = TRUE
