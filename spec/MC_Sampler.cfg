INIT Init
NEXT Next
CHECK_DEADLOCK FALSE
INVARIANT SampleInSet
INVARIANT InteriorUnique
INVARIANT EndpointIffEven
INVARIANT NeverZero
INVARIANT Proportional
