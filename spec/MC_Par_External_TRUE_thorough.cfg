SPECIFICATION Spec
CONSTANT MaxNodes = 13
CONSTANT Targets = {3, 6, 9}
CONSTANT Passes = 4
CONSTANT Method = "External"
CONSTANT ClearWorkspace = TRUE
CHECK_DEADLOCK FALSE
INVARIANT InvExactlyOnce
INVARIANT InvNoStaleTask
INVARIANT InvCacheCurrent
INVARIANT InvDisjoint
INVARIANT InvNoLockConflict
