---------------------------------- MODULE Efg ----------------------------------
(***************************************************************************)
(* What a Gambit extensive-form document MEANS as a two-player constant-   *)
(* sum game, and which documents the command-line tool must reject        *)
(* (C15, C16, C17).  Written from the Gambit format description and the    *)
(* tool's README, not from the converter.                                  *)
(*                                                                         *)
(* Abstract document: [players |-> n, scale |-> s, root |-> node] with     *)
(*   [k |-> "t", out |-> id, pays |-> <<x1, x2>>]                          *)
(*   [k |-> "c", iset |-> id, out |-> id | 0, pays |-> <<x1, x2>> | <<>>,  *)
(*    kids |-> << [a |-> name, pn |-> num, pd |-> den, t |-> node], ... >>]*)
(*   [k |-> "p", pl |-> player, iset |-> id, name |-> string ("" = none),  *)
(*    out, pays, kids |-> << [a |-> name, t |-> node], ... >>]             *)
(* Payoffs are integers in units of 1/scale.  An outcome id other than 0   *)
(* attaches a payoff pair to the node; the pair may be written at the node *)
(* or only at another node carrying the same id.  The payoff of a play is  *)
(* the SUM of the pairs met along the path.  An information set is         *)
(* identified by (player, iset); it is shown under its given name (any     *)
(* node of the set may carry it) or, if it has none, under its number.     *)
(* Chance nodes with the same iset belong to one chance information set.   *)
(*                                                                         *)
(* For a constant-sum document (every play's two payoffs add up to S) the  *)
(* game solved is the zero-sum game in which player one receives           *)
(* own payoff - S/2.  To stay in integers Meaning2 is that game with all   *)
(* payoffs DOUBLED: player one receives 2 * own - S.                       *)
(***************************************************************************)
EXTENDS Game, SequencesExt

\* ------------------------------------------------------------------ outcomes
RECURSIVE Defs(_)
\* all (outcome id, payoff pair) definitions written in the document
Defs(n) ==
  LET below == IF n.k = "t" THEN {} ELSE UNION {Defs(n.kids[j].t) : j \in 1..Len(n.kids)}
  IN IF n.out # 0 /\ n.pays # <<>> THEN below \cup {<<n.out, n.pays>>} ELSE below

OutPay(doc, id) == IF id = 0 THEN <<0, 0>>
                   ELSE (CHOOSE d \in Defs(doc.root) : d[1] = id)[2]
Defined(doc, id) == id = 0 \/ \E d \in Defs(doc.root) : d[1] = id
\* the format's own consistency rule: one payoff pair per outcome id
OutcomesConsistent(doc) == \A d, e \in Defs(doc.root) : d[1] = e[1] => d[2] = e[2]

\* ------------------------------------------------------------------ infoset names
RECURSIVE GivenNames(_, _)
\* the names written at the nodes of information set (p, iset)
GivenNames(n, key) ==
  IF n.k = "t" THEN {}
  ELSE LET below == UNION {GivenNames(n.kids[j].t, key) : j \in 1..Len(n.kids)}
       IN IF n.k = "p" /\ <<n.pl, n.iset>> = key /\ n.name # "" THEN below \cup {n.name} ELSE below

RECURSIVE InfoKeys(_)
InfoKeys(n) == IF n.k = "t" THEN {}
               ELSE LET below == UNION {InfoKeys(n.kids[j].t) : j \in 1..Len(n.kids)}
                    IN IF n.k = "p" THEN below \cup {<<n.pl, n.iset>>} ELSE below

Shown(doc, key) == LET g == GivenNames(doc.root, key)
                   IN IF g = {} THEN ToString(key[2]) ELSE CHOOSE x \in g : TRUE
\* two information sets of ONE player shown under the same name cannot be told apart in the output
NameClash(doc) == \E a, b \in InfoKeys(doc.root) : a # b /\ a[1] = b[1] /\ Shown(doc, a) = Shown(doc, b)

\* ------------------------------------------------------------------ the game meant
Lcm(a, b) == (a \div GCD(a, b)) * b
RECURSIVE LcmOf(_)
LcmOf(s) == IF s = <<>> THEN 1 ELSE Lcm(Head(s), LcmOf(Tail(s)))

\* a fixed total order on the action names used by the generated documents (TLC cannot compare
\* strings): position in this list = byte order; every base name also with the suffixes ` "q"` and `\b`
\* (characters that need escaping in both input formats)
Alphabet == <<"a", "a \"q\"", "a0", "a0 \"q\"", "a0\\b", "a1", "a1 \"q\"", "a1\\b", "a2",
              "a2 \"q\"", "a2\\b", "a3", "a3 \"q\"", "a3\\b", "a4", "a4 \"q\"", "a4\\b", "a5",
              "a5 \"q\"", "a5\\b", "a\\b", "b", "b \"q\"", "b\\b", "bad", "bad \"q\"", "bad\\b",
              "bet", "bet \"q\"", "bet\\b", "c", "c \"q\"", "c\\b", "call", "call \"q\"",
              "call\\b", "check", "check \"q\"", "check\\b", "d", "d \"q\"", "d\\b", "fold",
              "fold \"q\"", "fold\\b", "go", "go \"q\"", "go\\b", "good", "good \"q\"", "good\\b",
              "h", "h \"q\"", "h\\b", "l", "l \"q\"", "l\\b", "m", "m \"q\"", "m\\b", "mid",
              "mid \"q\"", "mid\\b", "only", "only \"q\"", "only\\b", "r", "r \"q\"", "r\\b",
              "stop", "stop \"q\"", "stop\\b", "t", "t \"q\"", "t\\b">>
Rank(a) == IF \E i \in 1..Len(Alphabet) : Alphabet[i] = a
           THEN CHOOSE i \in 1..Len(Alphabet) : Alphabet[i] = a ELSE 0
ByRank(x, y) == Rank(x.a) < Rank(y.a)

RECURSIVE Conv(_, _, _, _)
\* cum = payoff pair collected above the node; S = the constant sum (units of 1/scale)
Conv(doc, n, cum, S) ==
  LET c == <<cum[1] + OutPay(doc, n.out)[1], cum[2] + OutPay(doc, n.out)[2]>>
  IN IF n.k = "t" THEN [k |-> "T", pay |-> 2 * c[1] - S]
     ELSE IF n.k = "c"
     THEN LET L == LcmOf([j \in 1..Len(n.kids) |-> n.kids[j].pd])
          IN [k |-> "C", ci |-> "c" \o ToString(n.iset),
              kids |-> [j \in 1..Len(n.kids) |->
                          [w |-> n.kids[j].pn * (L \div n.kids[j].pd), t |-> Conv(doc, n.kids[j].t, c, S)]]]
     ELSE LET ks == SortSeq(n.kids, ByRank)
          IN [k |-> "P", pl |-> n.pl, info |-> Shown(doc, <<n.pl, n.iset>>),
              kids |-> [j \in 1..Len(ks) |-> [a |-> ks[j].a, t |-> Conv(doc, ks[j].t, c, S)]]]

\* the pairs of total payoffs of all plays
RECURSIVE Totals(_, _, _)
Totals(doc, n, cum) ==
  LET c == <<cum[1] + OutPay(doc, n.out)[1], cum[2] + OutPay(doc, n.out)[2]>>
  IN IF n.k = "t" THEN {c} ELSE UNION {Totals(doc, n.kids[j].t, c) : j \in 1..Len(n.kids)}

PlaySums(doc) == {c[1] + c[2] : c \in Totals(doc, doc.root, <<0, 0>>)}
ConstantSum(doc) == Cardinality(PlaySums(doc)) = 1
SumOf(doc) == CHOOSE s \in PlaySums(doc) : TRUE
Meaning2(doc) == Conv(doc, doc.root, <<0, 0>>, SumOf(doc))

\* ------------------------------------------------------------------ what must be rejected
\* The documented tolerance: the range of the play sums must be less than 0.1% of the range of one
\* player's payoffs (README, "Constant Sum")
OneRange(doc) == LET xs == {c[1] : c \in Totals(doc, doc.root, <<0, 0>>)} IN SetMax(xs) - SetMin(xs)
SumRange(doc) == SetMax(PlaySums(doc)) - SetMin(PlaySums(doc))
WithinTolerance(doc) == SumRange(doc) * 1000 <= OneRange(doc)
ClearlyNotConstantSum(doc) == SumRange(doc) * 1000 > 2 * OneRange(doc)

\* ------------------------------------------------------------------ the format's own rules
RECURSIVE ProbsSum(_)
\* the probabilities of every chance node add up to exactly one
ProbsSum(n) == IF n.k = "t" THEN TRUE
               ELSE /\ \A j \in 1..Len(n.kids) : ProbsSum(n.kids[j].t)
                    /\ (n.k = "c" => /\ \A j \in 1..Len(n.kids) : n.kids[j].pd > 0
                                     /\ RSumSeq([j \in 1..Len(n.kids) |-> Frac(n.kids[j].pn, n.kids[j].pd)]) = One)

Bag(s) == [x \in {s[j] : j \in 1..Len(s)} |-> Cardinality({j \in 1..Len(s) : s[j] = x})]
RECURSIVE NodeSigs(_)
\* (kind, player, iset) -> what the node lists: the bag of actions (with probabilities for chance)
NodeSigs(n) ==
  IF n.k = "t" THEN {}
  ELSE LET below == UNION {NodeSigs(n.kids[j].t) : j \in 1..Len(n.kids)}
       IN IF n.k = "c"
          THEN below \cup {<<"c", 0, n.iset, Bag([j \in 1..Len(n.kids) |->
                                                     <<n.kids[j].a, Frac(n.kids[j].pn, n.kids[j].pd)>>])>>}
          ELSE below \cup {<<"p", n.pl, n.iset, Bag([j \in 1..Len(n.kids) |-> n.kids[j].a])>>}
\* every node of an information set lists the same actions; an information set has at most one name
InfosetsConsistent(doc) ==
  /\ \A a, b \in NodeSigs(doc.root) : (a[1] = b[1] /\ a[2] = b[2] /\ a[3] = b[3]) => a[4] = b[4]
  /\ \A key \in InfoKeys(doc.root) : Cardinality(GivenNames(doc.root, key)) <= 1

Named(doc, key) == GivenNames(doc.root, key) # {}
\* an unnamed information set whose number is the name of another one of the same player
NumberClash(doc) == \E a, b \in InfoKeys(doc.root) :
                       a # b /\ a[1] = b[1] /\ ~Named(doc, a) /\ Named(doc, b) /\ Shown(doc, b) = ToString(a[2])
\* two information sets of one player that were GIVEN the same name
GivenClash(doc) == \E a, b \in InfoKeys(doc.root) :
                      a # b /\ a[1] = b[1] /\ Named(doc, a) /\ Named(doc, b) /\ Shown(doc, a) = Shown(doc, b)

RECURSIVE ProbsOK(_)
ProbsOK(n) == IF n.k = "t" THEN TRUE
              ELSE /\ \A j \in 1..Len(n.kids) : ProbsOK(n.kids[j].t)
                   /\ (n.k = "c" => /\ \A j \in 1..Len(n.kids) : n.kids[j].pn > 0 /\ n.kids[j].pd > 0
                                    /\ RSumSeq([j \in 1..Len(n.kids) |-> Frac(n.kids[j].pn, n.kids[j].pd)]) = One)
RECURSIVE PlayersOK(_, _)
PlayersOK(n, np) == IF n.k = "t" THEN Len(n.pays) = np
                    ELSE /\ \A j \in 1..Len(n.kids) : PlayersOK(n.kids[j].t, np)
                         /\ (n.k = "p" => n.pl \in 1..np)
                         /\ (n.pays # <<>> => Len(n.pays) = np)
RECURSIVE OutsDefined(_, _)
OutsDefined(doc, n) == /\ Defined(doc, n.out)
                       /\ (n.k = "t" => n.out # 0)
                       /\ (n.k # "t" => \A j \in 1..Len(n.kids) : OutsDefined(doc, n.kids[j].t))
================================================================================
