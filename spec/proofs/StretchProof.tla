------------------------------ MODULE StretchProof ------------------------------
(***************************************************************************)
(* C11, the argument behind the STRETCH replay (harness build.rs): whether *)
(* two weight vectors of a chance information set are proportional does    *)
(* not change when ONE coordinate of both is multiplied by the same        *)
(* positive constant.  Proportional is stated without division, as in      *)
(* Contract.tla (cross products).  Machine-checked for every length N,     *)
(* every coordinate k and every constant c > 0 (TLAPS).                    *)
(***************************************************************************)
EXTENDS Integers, TLAPS

CONSTANTS N, c, k
ASSUME Assm == N \in Nat /\ c \in Nat /\ c > 0 /\ k \in 1..N

Vec == [1..N -> Nat]
Proportional(a, b) == \A i, j \in 1..N : a[i] * b[j] = a[j] * b[i]
Stretch(a) == [i \in 1..N |-> IF i = k THEN c * a[i] ELSE a[i]]

LEMMA Cancel == \A x, y \in Nat : c * x = c * y => x = y
  BY Assm

LEMMA MulNat == \A x, y \in Nat : x * y \in Nat
  OBVIOUS

THEOREM StretchKeepsProportional ==
  \A a, b \in Vec : Proportional(a, b) <=> Proportional(Stretch(a), Stretch(b))
<1> SUFFICES ASSUME NEW a \in Vec, NEW b \in Vec
             PROVE Proportional(a, b) <=> Proportional(Stretch(a), Stretch(b))
  OBVIOUS
<1>1. ASSUME Proportional(a, b) PROVE Proportional(Stretch(a), Stretch(b))
  <2> SUFFICES ASSUME NEW i \in 1..N, NEW j \in 1..N
               PROVE Stretch(a)[i] * Stretch(b)[j] = Stretch(a)[j] * Stretch(b)[i]
    BY DEF Proportional
  <2>0. a[i] * b[j] = a[j] * b[i]
    BY <1>1 DEF Proportional
  <2>t. a[i] \in Nat /\ a[j] \in Nat /\ b[i] \in Nat /\ b[j] \in Nat /\ c \in Nat
    BY Assm DEF Vec
  <2>1. CASE i = k /\ j = k
    BY <2>1 DEF Stretch
  <2>2. CASE i = k /\ j # k
    <3>1. Stretch(a)[i] = c * a[i] /\ Stretch(b)[i] = c * b[i] /\ Stretch(a)[j] = a[j] /\ Stretch(b)[j] = b[j]
      BY <2>2 DEF Stretch
    <3>2. (c * a[i]) * b[j] = c * (a[i] * b[j]) /\ a[j] * (c * b[i]) = c * (a[j] * b[i])
      BY <2>t
    <3> QED BY <3>1, <3>2, <2>0
  <2>3. CASE i # k /\ j = k
    <3>1. Stretch(a)[j] = c * a[j] /\ Stretch(b)[j] = c * b[j] /\ Stretch(a)[i] = a[i] /\ Stretch(b)[i] = b[i]
      BY <2>3 DEF Stretch
    <3>2. a[i] * (c * b[j]) = c * (a[i] * b[j]) /\ (c * a[j]) * b[i] = c * (a[j] * b[i])
      BY <2>t
    <3> QED BY <3>1, <3>2, <2>0
  <2>4. CASE i # k /\ j # k
    BY <2>4, <2>0 DEF Stretch
  <2> QED BY <2>1, <2>2, <2>3, <2>4
<1>2. ASSUME Proportional(Stretch(a), Stretch(b)) PROVE Proportional(a, b)
  <2> SUFFICES ASSUME NEW i \in 1..N, NEW j \in 1..N
               PROVE a[i] * b[j] = a[j] * b[i]
    BY DEF Proportional
  <2>0. Stretch(a)[i] * Stretch(b)[j] = Stretch(a)[j] * Stretch(b)[i]
    BY <1>2 DEF Proportional
  <2>t. a[i] \in Nat /\ a[j] \in Nat /\ b[i] \in Nat /\ b[j] \in Nat /\ c \in Nat
    BY Assm DEF Vec
  <2>p. a[i] * b[j] \in Nat /\ a[j] * b[i] \in Nat
    BY <2>t, MulNat
  <2>1. CASE i = k /\ j = k
    BY <2>1
  <2>2. CASE i = k /\ j # k
    <3>1. Stretch(a)[i] = c * a[i] /\ Stretch(b)[i] = c * b[i] /\ Stretch(a)[j] = a[j] /\ Stretch(b)[j] = b[j]
      BY <2>2 DEF Stretch
    <3>2. (c * a[i]) * b[j] = c * (a[i] * b[j]) /\ a[j] * (c * b[i]) = c * (a[j] * b[i])
      BY <2>t
    <3>3. c * (a[i] * b[j]) = c * (a[j] * b[i])
      BY <3>1, <3>2, <2>0
    <3> QED BY <3>3, <2>p, Cancel
  <2>3. CASE i # k /\ j = k
    <3>1. Stretch(a)[j] = c * a[j] /\ Stretch(b)[j] = c * b[j] /\ Stretch(a)[i] = a[i] /\ Stretch(b)[i] = b[i]
      BY <2>3 DEF Stretch
    <3>2. a[i] * (c * b[j]) = c * (a[i] * b[j]) /\ (c * a[j]) * b[i] = c * (a[j] * b[i])
      BY <2>t
    <3>3. c * (a[i] * b[j]) = c * (a[j] * b[i])
      BY <3>1, <3>2, <2>0
    <3> QED BY <3>3, <2>p, Cancel
  <2>4. CASE i # k /\ j # k
    BY <2>4, <2>0 DEF Stretch
  <2> QED BY <2>1, <2>2, <2>3, <2>4
<1> QED BY <1>1, <1>2
=================================================================================
