------------------------------- MODULE StopProof -------------------------------
(***************************************************************************)
(* C09, unbounded: a machine-checked proof (TLAPS) that the early-         *)
(* termination loop of Stop.tla stops exactly at the first iteration whose *)
(* bound is below the threshold, or at the budget - for EVERY budget N,    *)
(* every bound sequence and every threshold, not only the instances TLC    *)
(* enumerates in MC_Stop.  The statement avoids CHOOSE: FirstHitOrBudget   *)
(* says that no earlier iteration was a hit and that the run either        *)
(* stopped on a hit or used the whole budget, which characterises          *)
(* TStar(run).                                                             *)
(***************************************************************************)
EXTENDS Stop, TLAPS

ASSUME RunsOK == \A rn \in Runs : rn.N \in Nat

NoHitUpTo(k) == \A t \in 1..k : ~Below(run.bound[t], run.r)

IndInv == /\ run \in Runs
          /\ it \in Nat
          /\ it <= run.N
          /\ stopped \in BOOLEAN
          /\ (stopped => it >= 1 /\ Below(run.bound[it], run.r) /\ NoHitUpTo(it - 1))
          /\ (~stopped => NoHitUpTo(it))

FirstHitOrBudget ==
  Finished => \/ (stopped /\ it >= 1 /\ Below(run.bound[it], run.r) /\ NoHitUpTo(it - 1))
              \/ (~stopped /\ it = run.N /\ NoHitUpTo(run.N))

LEMMA InitInv == Init => IndInv
  BY RunsOK DEF Init, IndInv, NoHitUpTo

LEMMA NextInv == IndInv /\ [Next]_vars => IndInv'
<1> SUFFICES ASSUME IndInv, [Next]_vars PROVE IndInv'
  OBVIOUS
<1>0. run.N \in Nat /\ it \in Nat
  BY RunsOK DEF IndInv
<1>1. CASE Iterate
  BY <1>0, <1>1, RunsOK DEF Iterate, IndInv, NoHitUpTo, Below
<1>2. CASE Done
  BY <1>2 DEF Done, vars, IndInv, NoHitUpTo, Below
<1>3. CASE UNCHANGED vars
  BY <1>3 DEF vars, IndInv, NoHitUpTo, Below
<1> QED BY <1>1, <1>2, <1>3 DEF Next

THEOREM Safety == Spec => []IndInv
  BY InitInv, NextInv, PTL DEF Spec

LEMMA InvImplies == IndInv => FirstHitOrBudget /\ BudgetRespected
  BY RunsOK DEF IndInv, FirstHitOrBudget, BudgetRespected, Finished, NoHitUpTo

THEOREM Spec => [](FirstHitOrBudget /\ BudgetRespected)
  BY Safety, InvImplies, PTL
================================================================================
