------------------------------- MODULE ParWorkers -------------------------------
(***************************************************************************)
(* The parallel phase of one unsampled pass at the grain of the shared     *)
(* memory operations (C06): every task (a subtree of the frontier,         *)
(* Par.tla) is traversed by a worker; at a decision node n of infoset I    *)
(* the code, in this order,                                                *)
(*   S(n)      adds reach x strategy to the average-strategy accumulator   *)
(*             of I under I's mutex (lock, read, write, unlock);           *)
(*   for each action a: traverses the child, then                          *)
(*   U(n, a)   atomically adds weight x utility(a) to the regret of (I, a);*)
(*   after the last child, for each action a:                              *)
(*   E(n, a)   atomically subtracts weight x expected utility.             *)
(* Nodes of one infoset may lie in different tasks, so these operations    *)
(* interleave.  The accumulators are modelled as BAGS of contribution      *)
(* tokens: the pass is correct iff, when all workers are done, every       *)
(* decision node contributed each of its tokens exactly once - then the    *)
(* sums equal the sequential pass's whatever the order (addition of the    *)
(* exact values is commutative; in floating point "up to rounding").       *)
(*                                                                         *)
(* Design switches (TRUE/FALSE = the code as it is):                       *)
(*   UseMutex      FALSE: S(n) reads and writes without the lock           *)
(*                 (lost update)                                           *)
(*   SharedScratch TRUE: utilities are parked in a per-INFOSET scratch     *)
(*                 cell and added later as (utility - expected) - the      *)
(*                 "optimisation" of the seeded change                     *)
(*                 C06-shared-scratch-race; another task's node of the     *)
(*                 same infoset may overwrite the cell in between          *)
(*   TryLock       TRUE: the mutex is taken with try_lock().unwrap() - a   *)
(*                 worker that finds it busy panics instead of waiting     *)
(*                 (the seeded change C05c-try-lock-on-sampled-infoset).   *)
(*                 For the UPDATING player's infosets try_lock is safe     *)
(*                 (Par.tla, NoLockConflict: perfect recall keeps them in  *)
(*                 one task); an accumulator shared across tasks needs a   *)
(*                 blocking lock.                                          *)
(*   AtomicAdd     FALSE: U(n, a) is a load followed by a store of the     *)
(*                 regret cell of (I, a) instead of one atomic fetch_add   *)
(*                 (the seeded change C07g): a concurrent update of the    *)
(*                 same cell by another task is lost                       *)
(***************************************************************************)
EXTENDS Naturals, Sequences, FiniteSets, TLC

CONSTANTS UseMutex, SharedScratch, TryLock, AtomicAdd

\* ------------------------------------------------------------------ instances
\* a task is a tree of decision nodes: [id, info, kids] with kids = sequence (one per action) of
\* either a node or TT (terminal)
TT == [id |-> 0, info |-> 0, kids |-> <<>>]
Leaf(id, info, n) == [id |-> id, info |-> info, kids |-> [a \in 1..n |-> TT]]
Instances ==
  << \* 1: two tasks, one decision node each, same infoset
     << Leaf(1, 1, 2), Leaf(2, 1, 2) >>,
     \* 2: two tasks: a private node above a node of a shared infoset
     << [id |-> 1, info |-> 1, kids |-> << Leaf(2, 3, 2), TT >>],
        [id |-> 3, info |-> 2, kids |-> << TT, Leaf(4, 3, 2) >>] >>,
     \* 3: three tasks in one infoset
     << Leaf(1, 1, 2), Leaf(2, 1, 2), Leaf(3, 1, 2) >>,
     \* 4: one task visits the shared infoset twice (two nodes), the other once
     << [id |-> 1, info |-> 1, kids |-> << Leaf(2, 2, 2), Leaf(3, 2, 2) >>], Leaf(4, 2, 2) >> >>

\* ------------------------------------------------------------------ programs
RECURSIVE Ops(_)
Flat2(a, b) == a \o b
RECURSIVE FlatSeq(_)
FlatSeq(ss) == IF ss = <<>> THEN <<>> ELSE Head(ss) \o FlatSeq(Tail(ss))
Ops(n) ==
  LET na == Len(n.kids)
      perAction == [a \in 1..na |->
                      (IF n.kids[a].id = 0 THEN <<>> ELSE Ops(n.kids[a]))
                        \o (IF SharedScratch THEN << [op |-> "St", node |-> n.id, info |-> n.info, a |-> a] >>
                            ELSE IF AtomicAdd THEN << [op |-> "U", node |-> n.id, info |-> n.info, a |-> a] >>
                            ELSE << [op |-> "Ul", node |-> n.id, info |-> n.info, a |-> a],
                                    [op |-> "Us", node |-> n.id, info |-> n.info, a |-> a] >>)]
      after == [a \in 1..na |-> [op |-> IF SharedScratch THEN "D" ELSE "E", node |-> n.id, info |-> n.info, a |-> a]]
      strat == IF UseMutex
               THEN << [op |-> "lock", node |-> n.id, info |-> n.info, a |-> 0],
                       [op |-> "read", node |-> n.id, info |-> n.info, a |-> 0],
                       [op |-> "write", node |-> n.id, info |-> n.info, a |-> 0],
                       [op |-> "unlock", node |-> n.id, info |-> n.info, a |-> 0] >>
               ELSE << [op |-> "read", node |-> n.id, info |-> n.info, a |-> 0],
                       [op |-> "write", node |-> n.id, info |-> n.info, a |-> 0] >>
  IN strat \o FlatSeq(perAction) \o after

RECURSIVE NodesOf(_)
NodesOf(n) == {<<n.id, n.info, Len(n.kids)>>}
                \cup UNION {IF n.kids[a].id = 0 THEN {} ELSE NodesOf(n.kids[a]) : a \in 1..Len(n.kids)}

VARIABLES inst, pc, cumR, cumS, local, lock, scratch, panicked, loaded
vars == <<inst, pc, cumR, cumS, local, lock, scratch, panicked, loaded>>

Tasks == Instances[inst]
Workers == 1..Len(Tasks)
Prog(w) == Ops(Tasks[w])
AllNodes == UNION {NodesOf(Tasks[w]) : w \in Workers}
InfoIds == {x[2] : x \in AllNodes}

\* bags as functions token -> count
Add(bag, tok) == IF tok \in DOMAIN bag THEN [bag EXCEPT ![tok] = @ + 1]
                 ELSE [t \in DOMAIN bag \cup {tok} |-> IF t = tok THEN 1 ELSE bag[t]]
Empty == [t \in {} |-> 0]

Init == /\ inst \in 1..Len(Instances)
        /\ pc = [w \in 1..Len(Instances[inst]) |-> 1]
        /\ cumR = Empty
        /\ cumS = [i \in {x[2] : x \in UNION {NodesOf(Instances[inst][w]) : w \in 1..Len(Instances[inst])}} |-> {}]
        /\ local = [w \in 1..Len(Instances[inst]) |-> {}]
        /\ lock = [i \in {x[2] : x \in UNION {NodesOf(Instances[inst][w]) : w \in 1..Len(Instances[inst])}} |-> 0]
        /\ scratch = [i \in {x[2] : x \in UNION {NodesOf(Instances[inst][w]) : w \in 1..Len(Instances[inst])}} |->
                        [a \in 1..2 |-> 0]]
        /\ panicked = FALSE
        /\ loaded = [w \in 1..Len(Instances[inst]) |-> Empty]

\* try_lock on a busy mutex: the worker panics (the pool propagates the panic out of solve)
Panic(w) ==
  /\ TryLock /\ ~panicked
  /\ pc[w] <= Len(Prog(w))
  /\ Prog(w)[pc[w]].op = "lock" /\ lock[Prog(w)[pc[w]].info] # 0
  /\ panicked' = TRUE
  /\ UNCHANGED <<inst, pc, cumR, cumS, local, lock, scratch, loaded>>

\* the regret cell of (infoset, action): the tokens of all nodes of that infoset for that action
InfoOfNode(id) == (CHOOSE x \in AllNodes : x[1] = id)[2]
InCell(tok, info, a) == tok[2] = a /\ InfoOfNode(tok[1]) = info
CellOf(bag, info, a) == [t \in {x \in DOMAIN bag : InCell(x, info, a)} |-> bag[t]]
OutsideCell(bag, info, a) == [t \in {x \in DOMAIN bag : ~InCell(x, info, a)} |-> bag[t]]
Merge(b1, b2) == [t \in DOMAIN b1 \cup DOMAIN b2 |-> IF t \in DOMAIN b1 THEN b1[t] ELSE b2[t]]

Step(w) ==
  /\ pc[w] <= Len(Prog(w)) /\ ~panicked
  /\ UNCHANGED panicked
  /\ LET o == Prog(w)[pc[w]]
     IN /\ (o.op = "lock" => lock[o.info] = 0)
        /\ pc' = [pc EXCEPT ![w] = @ + 1]
        /\ lock' = IF o.op = "lock" THEN [lock EXCEPT ![o.info] = w]
                   ELSE IF o.op = "unlock" THEN [lock EXCEPT ![o.info] = 0] ELSE lock
        /\ local' = IF o.op = "read" THEN [local EXCEPT ![w] = cumS[o.info]] ELSE local
        /\ cumS' = IF o.op = "write" THEN [cumS EXCEPT ![o.info] = local[w] \cup {o.node}] ELSE cumS
        /\ scratch' = IF o.op = "St" THEN [scratch EXCEPT ![o.info][o.a] = o.node] ELSE scratch
        /\ loaded' = IF o.op = "Ul" THEN [loaded EXCEPT ![w] = CellOf(cumR, o.info, o.a)] ELSE loaded
        /\ cumR' = IF o.op = "U" THEN Add(cumR, <<o.node, o.a, "u", o.node>>)
                   \* the store writes back what was loaded plus the own contribution: whatever others added in between is gone
                   ELSE IF o.op = "Us" THEN Merge(OutsideCell(cumR, o.info, o.a), Add(loaded[w], <<o.node, o.a, "u", o.node>>))
                   ELSE IF o.op = "E" THEN Add(cumR, <<o.node, o.a, "e", o.node>>)
                   ELSE IF o.op = "D" THEN Add(Add(cumR, <<o.node, o.a, "u", scratch[o.info][o.a]>>), <<o.node, o.a, "e", o.node>>)
                   ELSE cumR
  /\ UNCHANGED inst

Next == \E w \in Workers : Step(w) \/ Panic(w)
Spec == Init /\ [][Next]_vars /\ \A w \in 1..4 : WF_vars(w \in Workers /\ Step(w))

Done == panicked \/ \A w \in Workers : pc[w] > Len(Prog(w))
NoPanic == ~panicked

\* every decision node contributed each token exactly once, attributed to its own utilities
ExpectedTokens == UNION {{<<x[1], a, "u", x[1]>> : a \in 1..x[3]} \cup {<<x[1], a, "e", x[1]>> : a \in 1..x[3]} : x \in AllNodes}
Expected == [t \in ExpectedTokens |-> 1]
ParEqualsSeq == (Done /\ ~panicked) => cumR = Expected
\* the average-strategy accumulator of every infoset received every node of the infoset
NoLostStrategyUpdate == (Done /\ ~panicked) => \A i \in InfoIds : cumS[i] = {x[1] : x \in {y \in AllNodes : y[2] = i}}
\* mutual exclusion and no deadlock on the infoset mutexes
LockFree == \A i \in InfoIds : lock[i] \in {0} \cup Workers
\* the only state without a successor is the one in which every worker is done
NoDeadlock == Done \/ ENABLED Next
Terminates == <>Done
=================================================================================
