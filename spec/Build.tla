--------------------------------- MODULE Build ---------------------------------
(***************************************************************************)
(* Operational model of Game::from_root / init_recurse (C11, C12): the     *)
(* depth-first construction of the compact game with its three tables      *)
(* (chance infosets, multi-action infosets per player, single-action       *)
(* infosets per player), the perfect-recall witness carried along the      *)
(* path, the collapse of one-outcome chance nodes and one-action decision  *)
(* nodes, and weight normalisation.  The first error in depth-first order  *)
(* is the result.                                                          *)
(*                                                                         *)
(* State threaded through the traversal:                                   *)
(*   err    "none" or the GameError kind                                   *)
(*   chance sequence of [key, probs]        (index = position)             *)
(*   multi  <<seq, seq>> of [name, acts, prev]  per player (prev = <<infoset,action>> or <<0,0>>)  *)
(*   single <<seq, seq>> of [name, act]     per player                     *)
(*   fresh  counter for the unique keys of unlabelled chance nodes         *)
(*                                                                         *)
(* Named deviations from the contract (Contract.tla), both in the code:    *)
(*   - payoffs are never inspected (R8 is not enforced)                    *)
(*   - a one-outcome chance node is collapsed before its infoset label is  *)
(*     looked at, so it may share a label with a several-outcome node (R3s)*)
(* Design switches (TRUE = the repaired code; FALSE = the pinned code):    *)
(*   RecallChecksAction, SingleMultiClash                                  *)
(***************************************************************************)
EXTENDS Contract

CONSTANTS RecallChecksAction, SingleMultiClash

NoWitness == <<0, 0>>
InitBuild == [err |-> "none", chance |-> <<>>, multi |-> << <<>>, <<>> >>,
              single |-> << <<>>, <<>> >>, fresh |-> 0]
Dummy == [k |-> "T", pay |-> 0]
Fail(st, kind) == [st |-> [st EXCEPT !.err = kind], node |-> Dummy]

Find(seq, name) == IF \E i \in 1..Len(seq) : seq[i].name = name
                   THEN CHOOSE i \in 1..Len(seq) : seq[i].name = name ELSE 0
FindKey(seq, key) == IF \E i \in 1..Len(seq) : seq[i].key = key
                     THEN CHOOSE i \in 1..Len(seq) : seq[i].key = key ELSE 0

WitnessOf(w) == IF RecallChecksAction THEN w ELSE <<w[1], 0>>

RECURSIVE BuildRec(_, _, _)
RECURSIVE ChanceKids(_, _, _, _, _, _)
RECURSIVE PlayerKids(_, _, _, _, _, _, _)

\* outcomes in order: the weight is tested first, then the child is built completely
ChanceKids(kids, j, st, wit, nodes, ws) ==
  IF st.err # "none" THEN [st |-> st, nodes |-> nodes, ws |-> ws]
  ELSE IF j > Len(kids) THEN [st |-> st, nodes |-> nodes, ws |-> ws]
  ELSE IF ~ValidChanceWeight(kids[j].w)
       THEN [st |-> [st EXCEPT !.err = "NonPositiveChance"], nodes |-> nodes, ws |-> ws]
  ELSE LET r == BuildRec(kids[j].t, st, wit)
       IN ChanceKids(kids, j + 1, r.st, wit, Append(nodes, r.node), Append(ws, kids[j].w))

\* children of a multi-action node in order, the witness names this infoset and the action
PlayerKids(kids, j, st, wit, pl, ix, nodes) ==
  IF st.err # "none" \/ j > Len(kids) THEN [st |-> st, nodes |-> nodes]
  ELSE LET r == BuildRec(kids[j].t, st, [wit EXCEPT ![pl] = <<ix, j>>])
       IN PlayerKids(kids, j + 1, r.st, wit, pl, ix, Append(nodes, r.node))

BuildRec(t, st, wit) ==
  IF st.err # "none" THEN [st |-> st, node |-> Dummy]
  ELSE IF t.k = "T" THEN [st |-> st, node |-> [k |-> "T", pay |-> t.pay]]
  ELSE IF t.k = "C" THEN
    LET r == ChanceKids(t.kids, 1, st, wit, <<>>, <<>>)
    IN IF r.st.err # "none" THEN [st |-> r.st, node |-> Dummy]
       ELSE IF Len(r.nodes) = 0 THEN Fail(r.st, "EmptyChance")
       ELSE IF Len(r.nodes) = 1 THEN [st |-> r.st, node |-> r.nodes[1]]
       ELSE LET tot == SumSeq(r.ws)
                probs == [j \in 1..Len(r.ws) |-> Frac(r.ws[j], tot)]
                key == IF t.ci = "none" THEN <<"fresh", r.st.fresh>> ELSE <<"label", t.ci>>
                st2 == IF t.ci = "none" THEN [r.st EXCEPT !.fresh = @ + 1] ELSE r.st
                at == FindKey(st2.chance, key)
            IN IF at = 0
               THEN [st |-> [st2 EXCEPT !.chance = Append(@, [key |-> key, probs |-> probs])],
                     node |-> [k |-> "C", ci |-> Len(st2.chance) + 1, kids |-> r.nodes]]
               ELSE IF st2.chance[at].probs # probs THEN Fail(st2, "ProbabilitiesNotEqual")
               ELSE [st |-> st2, node |-> [k |-> "C", ci |-> at, kids |-> r.nodes]]
  ELSE \* decision node: all (action, child) pairs are collected before any recursion
    LET pl == t.pl
        acts == [j \in 1..Len(t.kids) |-> t.kids[j].a]
    IN IF Len(acts) = 0 THEN Fail(st, "EmptyPlayer")
       ELSE IF Len(acts) = 1 THEN
         IF SingleMultiClash /\ Find(st.multi[pl], t.info) # 0 THEN Fail(st, "ActionsNotEqual")
         ELSE LET at == Find(st.single[pl], t.info)
              IN IF at # 0 /\ st.single[pl][at].act # acts[1] THEN Fail(st, "ActionsNotEqual")
                 ELSE LET st2 == IF at = 0
                                 THEN [st EXCEPT !.single[pl] = Append(@, [name |-> t.info, act |-> acts[1]])]
                                 ELSE st
                      IN BuildRec(t.kids[1].t, st2, wit)   \* unchanged witness
       ELSE
         IF SingleMultiClash /\ Find(st.single[pl], t.info) # 0 THEN Fail(st, "ActionsNotEqual")
         ELSE LET at == Find(st.multi[pl], t.info)
              IN IF at # 0 /\ st.multi[pl][at].acts # acts THEN Fail(st, "ActionsNotEqual")
                 ELSE IF at # 0 /\ WitnessOf(st.multi[pl][at].prev) # WitnessOf(wit[pl])
                      THEN Fail(st, "ImperfectRecall")
                 ELSE IF at = 0 /\ ~Distinct(acts) THEN Fail(st, "ActionsNotUnique")
                 ELSE LET ix == IF at = 0 THEN Len(st.multi[pl]) + 1 ELSE at
                          st2 == IF at = 0
                                 THEN [st EXCEPT !.multi[pl] =
                                          Append(@, [name |-> t.info, acts |-> acts, prev |-> wit[pl]])]
                                 ELSE st
                          r == PlayerKids(t.kids, 1, st2, wit, pl, ix, <<>>)
                      IN IF r.st.err # "none" THEN [st |-> r.st, node |-> Dummy]
                         ELSE [st |-> r.st,
                               node |-> [k |-> "P", pl |-> pl, info |-> ix, kids |-> r.nodes]]

Build(t) ==
  LET r == BuildRec(t, InitBuild, <<NoWitness, NoWitness>>)
  IN IF r.st.err # "none" THEN [err |-> r.st.err]
     ELSE [err |-> "none",
           root |-> r.node,
           chance |-> [i \in 1..Len(r.st.chance) |-> r.st.chance[i].probs],
           multi |-> [p \in 1..2 |-> [i \in 1..Len(r.st.multi[p]) |->
                        [name |-> r.st.multi[p][i].name, acts |-> r.st.multi[p][i].acts,
                         prev |-> r.st.multi[p][i].prev[1]]]],
           single |-> [p \in 1..2 |-> {<<r.st.single[p][i].name, r.st.single[p][i].act>> :
                                          i \in 1..Len(r.st.single[p])}]]

\* --------------------------------------------------- semantics of the compact game
\* profile on the compact game: sigma[p][i] = weight tuple of infoset i of player p
RECURSIVE CEU(_, _, _)
CEU(n, g, sigma) ==
  IF n.k = "T" THEN R(n.pay)
  ELSE IF n.k = "C" THEN
    RSumSeq([j \in 1..Len(n.kids) |-> RMul(g.chance[n.ci][j], CEU(n.kids[j], g, sigma))])
  ELSE LET w == sigma[n.pl][n.info]
           tot == SumSeq(w)
       IN RSumSeq([j \in 1..Len(n.kids) |->
            IF w[j] = 0 THEN Zero ELSE RMul(Frac(w[j], tot), CEU(n.kids[j], g, sigma))])

\* the profile "action j has weight f(j)" on the raw tree and on the compact game
RawProfile(t, f(_)) ==
  [p \in 1..2 |-> [i \in InfoNames(t, p) |-> [j \in 1..NumActs(t, p, i) |-> f(j)]]]
CompactProfile(g, f(_)) ==
  [p \in 1..2 |-> [i \in 1..Len(g.multi[p]) |-> [j \in 1..Len(g.multi[p][i].acts) |-> f(j)]]]

\* ----------------------------------------------------------------- theorems
KnownDeviations == {"R3s", "R8"}

\* accepted iff in the documented class (modulo the named deviations)
VerdictMatchesContract(t) ==
  (Build(t).err = "none") <=> (ViolatedRules(t) \subseteq KnownDeviations)

\* a rejected tree is rejected with the error kind of a rule it violates
ErrorNamesViolatedRule(t) ==
  Build(t).err # "none" => Build(t).err \in ViolatedKinds(t)

\* collapse and normalisation lose nothing
Uniform(j) == 1
Skewed(j) == j
CompactPreservesSemantics(t) ==
  LET g == Build(t)
  IN (g.err = "none" /\ InClass(t)) =>
       /\ CEU(g.root, g, CompactProfile(g, Uniform)) = EU(t, RawProfile(t, Uniform))
       /\ CEU(g.root, g, CompactProfile(g, Skewed)) = EU(t, RawProfile(t, Skewed))

\* the count the API reports (num_infosets): the multi-action information sets of both players, each once - the
\* same number as the declarative count of Game.tla
NumInfosetsOf(g) == Len(g.multi[1]) + Len(g.multi[2])
InfosetCountMatches(t) ==
  LET g == Build(t)
  IN (g.err = "none" /\ InClass(t)) =>
       /\ NumInfosetsOf(g) = NumInfosets(t)
       /\ \A p \in 1..2 : {g.multi[p][i].name : i \in 1..Len(g.multi[p])} = InfoNames(t, p)

\* previous-infoset links form a forest per player and point to earlier infosets
PrevLinksWellFounded(t) ==
  LET g == Build(t)
  IN g.err = "none" => \A p \in 1..2 : \A i \in 1..Len(g.multi[p]) : g.multi[p][i].prev < i
================================================================================
