SPECIFICATION Spec
INVARIANT GrammarHasMeaning
INVARIANT FaultsRejected
INVARIANT StrictIffNeither
INVARIANT OrderIrrelevant
INVARIANT SortedLastWins
CHECK_DEADLOCK FALSE
