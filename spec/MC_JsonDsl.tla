----------------------------- MODULE MC_JsonDsl -----------------------------
(***************************************************************************)
(* JsonDsl.tla on a bounded universe of documents, checked by TLC alone:   *)
(* one decision or chance node whose inner object lists its members in     *)
(* every order, with one of them possibly missing, given twice, of the     *)
(* wrong type, or accompanied by a member the grammar does not list; its   *)
(* map has 0..3 entries over three names (repeats allowed) in every order, *)
(* each entry a terminal, a malformed node or (outcomes) a malformed       *)
(* outcome.                                                                *)
(*   GrammarHasMeaning   every document of the documented grammar parses   *)
(*   FaultsRejected      a document parses iff it has none of the faults   *)
(*                       the module header lists                           *)
(*   OrderIrrelevant     reversing the members of every object leaves the  *)
(*                       meaning unchanged when no name repeats            *)
(*   SortedLastWins      children in strictly increasing byte order, one   *)
(*                       per distinct name, each the LAST occurrence       *)
(***************************************************************************)
EXTENDS JsonDsl, IOUtils

\* entries per map: 0..MaxEntries (environment MAXENT; 2 = 13 104 documents, 3 = 88 560)
MaxEntries == IF "MAXENT" \in DOMAIN IOEnv THEN atoi(IOEnv.MAXENT) ELSE 3

Num(n) == [t |-> "num", n |-> n, d |-> 1]
Str(s) == [t |-> "str", s |-> s]
Bool(b) == [t |-> "bool", b |-> b]
Null == [t |-> "null"]
Obj(f) == [t |-> "obj", f |-> f]
Arr(e) == [t |-> "arr", e |-> e]
M(k, v) == [k |-> k, v |-> v]
Term(n) == Obj(<<M("terminal", Num(n))>>)

Names == {"B", "a", "aa"}
\* entry kinds: a terminal (payoff = position), a node with two member names, a terminal with a string payoff
EntryKinds == {"good", "two-variants", "string-payoff"}
MapShapes == UNION {[1..n -> Names \X EntryKinds] : n \in 0..MaxEntries}

Child(kind, pos) ==
  CASE kind = "good" -> Term(pos)
    [] kind = "two-variants" -> Obj(<<M("terminal", Num(pos)), M("chance", Obj(<<>>))>>)
    [] OTHER -> Obj(<<M("terminal", Str("x"))>>)

ActionMap(shape) == Obj([j \in 1..Len(shape) |-> M(shape[j][1], Child(shape[j][2], j))])
OutcomeMap(shape, probfault) ==
  Obj([j \in 1..Len(shape) |->
         M(shape[j][1], Obj(IF probfault = "missing" /\ j = 1 THEN <<M("state", Child(shape[j][2], j))>>
                            ELSE IF probfault = "string" /\ j = 1 THEN <<M("prob", Str("1")), M("state", Child(shape[j][2], j))>>
                            ELSE IF probfault = "twice" /\ j = 1 THEN <<M("prob", Num(1)), M("state", Child(shape[j][2], j)), M("prob", Num(2))>>
                            ELSE IF probfault = "extra" /\ j = 1 THEN <<M("state", Child(shape[j][2], j)), M("note", Null), M("prob", Num(j))>>
                            ELSE <<M("prob", Num(j)), M("state", Child(shape[j][2], j))>>))])
\* the first outcome in serde's positional form: [prob, state], one element short, one too many, or in the other order
PosOutcomeMap(shape, probfault) ==
  Obj([j \in 1..Len(shape) |->
         M(shape[j][1], IF j # 1 THEN Obj(<<M("prob", Num(j)), M("state", Child(shape[j][2], j))>>)
                        ELSE IF probfault = "positional" THEN Arr(<<Num(j), Child(shape[j][2], j)>>)
                        ELSE IF probfault = "positional-short" THEN Arr(<<Num(j)>>)
                        ELSE IF probfault = "positional-long" THEN Arr(<<Num(j), Child(shape[j][2], j), Null>>)
                        ELSE Arr(<<Child(shape[j][2], j), Num(j)>>))])
PosFaults == {"positional", "positional-short", "positional-long", "positional-swapped"}

\* struct-level variations of the inner object
StructFaults == {"none", "missing-map", "missing-infoset", "infoset-null", "infoset-number", "twice", "extra", "map-is-array", "flag-number"}
                  \cup PosFaults

PlayerMembers(shape, sf) ==
  LET flag == M("player_one", IF sf = "flag-number" THEN Num(1) ELSE Bool(1))
      inf == M("infoset", IF sf = "infoset-null" THEN Null ELSE IF sf = "infoset-number" THEN Num(3) ELSE Str("x"))
      map == M("actions", IF sf = "map-is-array" THEN [t |-> "arr", e |-> <<>>] ELSE ActionMap(shape))
  IN CASE sf = "missing-map" -> <<flag, inf>>
       [] sf = "missing-infoset" -> <<flag, map>>
       [] sf = "twice" -> <<flag, inf, map, M("infoset", Str("y"))>>
       [] sf = "extra" -> <<flag, M("comment", Str("c")), inf, map>>
       [] OTHER -> <<flag, inf, map>>
ChanceMembers(shape, sf, pf) ==
  LET inf == M("infoset", IF sf = "infoset-null" THEN Null ELSE IF sf = "infoset-number" THEN Num(3) ELSE Str("c"))
      map == M("outcomes", IF sf = "map-is-array" THEN [t |-> "arr", e |-> <<>>] ELSE OutcomeMap(shape, pf))
  IN CASE sf = "missing-map" -> <<inf>>
       [] sf = "missing-infoset" -> <<map>>
       [] sf = "twice" -> <<inf, map, M("outcomes", OutcomeMap(shape, pf))>>
       [] sf = "extra" -> <<M("comment", Str("c")), inf, map>>
       [] sf = "flag-number" -> <<inf, map>>
       [] OTHER -> <<inf, map>>

ChanceMembersWith(sf0, outs) ==
  LET inf == M("infoset", IF sf0 = "infoset-null" THEN Null ELSE IF sf0 = "infoset-number" THEN Num(3) ELSE Str("c"))
      map == M("outcomes", IF sf0 = "map-is-array" THEN Arr(<<>>) ELSE outs)
  IN CASE sf0 = "missing-map" -> <<inf>>
       [] sf0 = "missing-infoset" -> <<map>>
       [] sf0 = "twice" -> <<inf, map, M("outcomes", outs)>>
       [] sf0 = "extra" -> <<M("comment", Str("c")), inf, map>>
       [] OTHER -> <<inf, map>>

Reverse(s) == [j \in 1..Len(s) |-> s[Len(s) + 1 - j]]
RECURSIVE Rev(_)
Rev(v) == IF v.t = "obj" THEN Obj(Reverse([j \in 1..Len(v.f) |-> M(v.f[j].k, Rev(v.f[j].v))]))
          ELSE IF v.t = "arr" THEN Arr([j \in 1..Len(v.e) |-> Rev(v.e[j])])   \* positions mean something: kept
          ELSE v

VARIABLES kind, shape, sf, pf, rev
vars == <<kind, shape, sf, pf, rev>>
Init == /\ kind \in {"player", "chance"}
        /\ shape \in MapShapes
        /\ sf \in StructFaults
        /\ pf \in {"none", "missing", "string", "twice", "extra"} \cup PosFaults
        /\ (kind = "player" => pf = "none")
        /\ rev \in BOOLEAN
Next == UNCHANGED vars
Spec == Init /\ [][Next]_vars

TheOutcomes == IF pf \in PosFaults THEN PosOutcomeMap(shape, pf) ELSE OutcomeMap(shape, pf)
PlayerInner ==
  CASE sf = "positional" -> Arr(<<Bool(1), Str("x"), ActionMap(shape)>>)
    [] sf = "positional-short" -> Arr(<<Bool(1), ActionMap(shape)>>)
    [] sf = "positional-long" -> Arr(<<Bool(1), Str("x"), ActionMap(shape), Null>>)
    [] sf = "positional-swapped" -> Arr(<<Str("x"), Bool(1), ActionMap(shape)>>)
    [] OTHER -> Obj(PlayerMembers(shape, sf))
ChanceInner ==
  CASE sf = "positional" -> Arr(<<IF Len(shape) = 1 THEN Null ELSE Str("c"), TheOutcomes>>)
    [] sf = "positional-short" -> Arr(<<TheOutcomes>>)
    [] sf = "positional-long" -> Arr(<<Str("c"), TheOutcomes, Null>>)
    [] sf = "positional-swapped" -> Arr(<<TheOutcomes, Str("c")>>)
    [] OTHER -> Obj(IF pf \in PosFaults THEN ChanceMembersWith(sf, TheOutcomes) ELSE ChanceMembers(shape, sf, pf))
Doc0 == IF kind = "player" THEN Obj(<<M("player", PlayerInner)>>)
        ELSE Obj(<<M("chance", ChanceInner)>>)
Doc == IF rev THEN Rev(Doc0) ELSE Doc0
Res == JState(Doc, 1, 1)

EntriesBad == \E j \in 1..Len(shape) : shape[j][2] # "good"
NamesRepeat == \E i, j \in 1..Len(shape) : i # j /\ shape[i][1] = shape[j][1]
\* the outcome map is part of the document
OutcomesSeen == TRUE
\* the faults the header of JsonDsl lists (missing / wrong type / listed member twice / malformed node below)
Faulty == \/ sf \in {"missing-map", "infoset-number", "twice", "map-is-array", "positional-short", "positional-long", "positional-swapped"}
          \/ (kind = "player" /\ sf \in {"missing-infoset", "flag-number", "infoset-null"})
          \/ EntriesBad
          \/ (kind = "chance" /\ OutcomesSeen /\ Len(shape) >= 1 /\ pf \in {"missing", "string", "twice", "positional-short", "positional-long", "positional-swapped"})
\* what the documentation leaves open
Open == \/ sf = "extra" \/ NamesRepeat
        \/ (kind = "chance" /\ sf = "infoset-null")
        \/ (kind = "chance" /\ Len(shape) >= 1 /\ pf \in {"extra", "positional"})
        \/ sf = "positional"

GrammarHasMeaning == StrictHasMeaning(Doc)
FaultsRejected == Res.ok <=> ~Faulty
StrictIffNeither == JStrict(Doc) <=> (~Faulty /\ ~Open)
OrderIrrelevant == (~NamesRepeat /\ sf # "twice" /\ pf # "twice") => JState(Rev(Doc), 1, 1) = Res
SortedLastWins ==
  Res.ok => LET ks == Res.t.kids
                nm(j) == IF kind = "player" THEN ks[j].a ELSE "?"
            IN /\ Len(ks) = Cardinality({shape[j][1] : j \in 1..Len(shape)})
               /\ (kind = "player" =>
                     /\ \A j \in 1..(Len(ks) - 1) : JRank(ks[j].a) < JRank(ks[j + 1].a)
                     /\ \A j \in 1..Len(ks) :
                          LET last == CHOOSE m \in 1..Len(shape) : shape[m][1] = ks[j].a /\ \A q \in (m + 1)..Len(shape) : shape[q][1] # ks[j].a
                              \* positions count from the end when the document was reversed
                              pos == last
                          IN ks[j].t.pay \in {p \in 1..Len(shape) : shape[p][1] = ks[j].a}
                             /\ (~rev => ks[j].t.pay = last)
                             /\ (rev => ks[j].t.pay = CHOOSE m \in 1..Len(shape) : shape[m][1] = ks[j].a /\ \A q \in 1..(m - 1) : shape[q][1] # ks[j].a))
=============================================================================
