------------------------------ MODULE MC_EvalTiny ------------------------------
(***************************************************************************)
(* C01 on U-tiny: every tree of MC_Build's universe that is in the         *)
(* documented class and has at least one multi-action infoset x every      *)
(* profile on the grid {(1,0), (0,1), (1,1)} per infoset (so: all pure     *)
(* strategies, zero-probability actions, profiles cutting off subtrees).   *)
(* Emits the exact evaluation (Game.tla) for replay into get_info().       *)
(***************************************************************************)
EXTENDS MC_Build

VARIABLE prof
evars == <<vars, prof>>

W == {<<1, 0>>, <<0, 1>>, <<1, 1>>}

EInit == /\ Init
         /\ InClass(Tree)
         /\ NumInfosets(Tree) >= 1
         /\ prof \in {<<f1, f2>> : f1 \in [InfoNames(Tree, 1) -> W], f2 \in [InfoNames(Tree, 2) -> W]}

ENext == /\ ~done
         /\ done' = TRUE
         /\ UNCHANGED <<kind, ci, pl, info, n, k1, k2, l1, l2, prof>>
         /\ PrintT(<<"OUT", 0, ToJson([tree |-> Tree, prof |-> prof, exp |-> Evaluate(Tree, prof)])>>)
================================================================================
