------------------------------ MODULE MC_Sampler ------------------------------
(***************************************************************************)
(* C10, the categorical sampler.  TLC enumerates every weight vector of    *)
(* length 1..4 over 0..MAXW (not all zero) and every variate u = j/(2T),   *)
(* T the total weight: the even j are exactly the interval endpoints, the  *)
(* odd j the interval midpoints.  Checked on the specification itself:     *)
(*   SampleInSet     Sample(w, u) is an admissible result                  *)
(*   InteriorUnique  off the endpoints exactly one index is admissible     *)
(*   NeverZero       off the endpoints an index of weight zero is never    *)
(*                   returned                                              *)
(*   Proportional    over the T midpoints of the unit grid, index k is     *)
(*                   returned exactly w[k] times: the result is            *)
(*                   distributed proportionally to the weights             *)
(* Every (w, u) is printed with the specified result and replayed into the *)
(* production sampler through the hook verif::multinomial_sample.          *)
(***************************************************************************)
EXTENDS Sampler, Json, IOUtils, FiniteSets, TLC

MAXW == atoi(IOEnv.MAXW)

Vectors == UNION {[1..n -> 0..MAXW] : n \in 1..4}
Total(w) == SumSeq(w)
Probs(w) == [k \in 1..Len(w) |-> Frac(w[k], Total(w))]

VARIABLES w, j, done
vars == <<w, j, done>>

Init == /\ w \in {v \in Vectors : Total(v) > 0}
        /\ j \in 0..(2 * (4 * MAXW) - 1)
        /\ j < 2 * Total(w)
        /\ done = FALSE

U == Frac(j, 2 * Total(w))
Interior == j % 2 = 1

SampleInSet == Sample(Probs(w), U) \in SampleSet(Probs(w), U)
InteriorUnique == Interior => Cardinality(SampleSet(Probs(w), U)) = 1
EndpointIffEven == OnEndpoint(Probs(w), U) => ~Interior
NeverZero == Interior => w[Sample(Probs(w), U)] > 0
Proportional ==
  \A k \in 1..Len(w) :
     Cardinality({m \in 0..(Total(w) - 1) : Sample(Probs(w), Frac(2 * m + 1, 2 * Total(w))) = k}) = w[k]

Next == /\ ~done
        /\ done' = TRUE
        /\ UNCHANGED <<w, j>>
        /\ PrintT(<<"OUT", 0, ToJson([w |-> w, total |-> Total(w), j |-> j, interior |-> Interior,
                                      dyadic |-> Total(w) \in {1, 2, 4, 8, 16},
                                      exp |-> Sample(Probs(w), U), set |-> SampleSet(Probs(w), U)])>>)
Spec == Init /\ [][Next]_vars
================================================================================
