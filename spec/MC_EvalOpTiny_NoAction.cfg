INIT OInit
NEXT ONext
CHECK_DEADLOCK FALSE
CONSTANT RecallChecksAction = FALSE
CONSTANT SingleMultiClash = TRUE
INVARIANT OInvNoBadRead
INVARIANT OInvNoUnderflow
INVARIANT OInvLeavesFirst
INVARIANT OInvAllResolved
INVARIANT OInvDeclarative
