------------------------------- MODULE Strategy -------------------------------
(***************************************************************************)
(* Strategy profiles as data: the contract of truncate, distance and of    *)
(* the two import functions (from_named / from_named_eq).                  *)
(*                                                                         *)
(* A player's side of a game, as far as strategies are concerned, is       *)
(*   [multi |-> << [name |-> s, acts |-> <<a1, ..>>], .. >>,               *)
(*    single |-> << [name |-> s, act |-> a], .. >>]                        *)
(* and a dense strategy is a sequence (one entry per multi-action infoset, *)
(* in index order) of sequences of rationals.                              *)
(***************************************************************************)
EXTENDS Rat, FiniteSets, TLC

\* ------------------------------------------------------------------ helpers
SeqToSet(s) == {s[j] : j \in 1..Len(s)}
IsDistribution(v) == /\ \A j \in 1..Len(v) : Ok(v[j]) /\ v[j][1] >= 0
                     /\ RSumSeq(v) = One
Normalise(w) == LET tot == SumSeq(w) IN [j \in 1..Len(w) |-> Frac(w[j], tot)]

\* ----------------------------------------------------------------- truncate
\* thresholds: [t |-> "q", v |-> rational], or [t |-> "nan" | "inf" | "ninf", v |-> Zero]
Exceeds(p, h) == IF h.t = "nan" \/ h.t = "inf" THEN FALSE
                 ELSE IF h.t = "ninf" THEN TRUE
                 ELSE RLt(h.v, p)

SomeExceeds(v, h) == \E j \in 1..Len(v) : Exceeds(v[j], h)

\* the part of the result that the property pins: survivors rescaled proportionally
TruncKeep(v, h) ==
  LET tot == RSumSeq([j \in 1..Len(v) |-> IF Exceeds(v[j], h) THEN v[j] ELSE Zero])
  IN [j \in 1..Len(v) |-> IF Exceeds(v[j], h) THEN RDiv(v[j], tot) ELSE Zero]

\* The specified function.  Where no action exceeds h the property only demands "still a
\* distribution"; the specification chooses to leave such an infoset untouched.
TruncInfo(v, h) == IF SomeExceeds(v, h) THEN TruncKeep(v, h) ELSE v
Truncate(s, h) == [i \in 1..Len(s) |-> TruncInfo(s[i], h)]

\* what an implementation must satisfy on one infoset (v before, r after)
TruncAcceptable(v, r, h) ==
  IF SomeExceeds(v, h) THEN r = TruncKeep(v, h) ELSE IsDistribution(r)

\* theorems about the specified function, checked by TLC over the enumerated universe
TruncValid(s, h) == \A i \in 1..Len(s) : IsDistribution(Truncate(s, h)[i])
TruncSupportExact(s, h) ==
  \A i \in 1..Len(s) : SomeExceeds(s[i], h) =>
     \A j \in 1..Len(s[i]) : (Truncate(s, h)[i][j][1] > 0) <=> (Exceeds(s[i][j], h) /\ s[i][j][1] > 0)
TruncProportional(s, h) ==
  \A i \in 1..Len(s) : SomeExceeds(s[i], h) =>
     \A j, k \in 1..Len(s[i]) : Exceeds(s[i][j], h) /\ Exceeds(s[i][k], h) =>
        RMul(Truncate(s, h)[i][j], s[i][k]) = RMul(Truncate(s, h)[i][k], s[i][j])
TruncNoOpBelowMin(s, h) ==
  (\A i \in 1..Len(s) : \A j \in 1..Len(s[i]) : s[i][j][1] > 0 => Exceeds(s[i][j], h))
     => \A i \in 1..Len(s) : \A j \in 1..Len(s[i]) : Truncate(s, h)[i][j] = s[i][j]
TruncIdempotent(s, h) == Truncate(Truncate(s, h), h) = Truncate(s, h)

\* ----------------------------------------------------------------- distance
\* The property fixes no formula, only these facts about the two numbers d12 = distance(s, s')
\* and d21 = distance(s', s) of one player (the harness evaluates them on floats).
SameStrategy(s, t) == s = t
DistanceFacts == {"in_unit_interval", "not_nan", "zero_iff_equal", "symmetric"}

\* ------------------------------------------------------------------- import
\* weights: [t |-> "num", k |-> Int] (the integer k times the scale class of the whole list), or
\* [t |-> "nan" | "inf" | "ninf", k |-> 0]
ValidWeight(w) == w.t = "num" /\ w.k >= 0
WeightOf(w) == w.k

MultiNames(side) == {side.multi[i].name : i \in 1..Len(side.multi)}
SingleNames(side) == {side.single[i].name : i \in 1..Len(side.single)}
MultiIndex(side, name) == CHOOSE i \in 1..Len(side.multi) : side.multi[i].name = name
SingleIndex(side, name) == CHOOSE i \in 1..Len(side.single) : side.single[i].name = name
ActIndex(acts, a) == CHOOSE j \in 1..Len(acts) : acts[j] = a

\* operational model of strat_into_box / strat_into_box_slow: a fold over the entries in the
\* given order; the first error wins
InitImport(side) ==
  [err |-> "none",
   dense |-> [i \in 1..Len(side.multi) |-> [j \in 1..Len(side.multi[i].acts) |-> 0]],
   seen |-> {}]

RECURSIVE MultiPairs(_, _, _, _)
MultiPairs(st, i, acts, pairs) ==
  IF pairs = <<>> \/ st.err # "none" THEN st
  ELSE LET pr == Head(pairs)
       IN IF ~ValidWeight(pr.w) THEN [st EXCEPT !.err = "InvalidProbability"]
          ELSE IF pr.a \notin SeqToSet(acts) THEN [st EXCEPT !.err = "InvalidAction"]
          ELSE MultiPairs([st EXCEPT !.dense[i][ActIndex(acts, pr.a)] = WeightOf(pr.w)],
                          i, acts, Tail(pairs))

RECURSIVE SinglePairs(_, _, _, _)
SinglePairs(st, name, act, pairs) ==
  IF pairs = <<>> \/ st.err # "none" THEN st
  ELSE LET pr == Head(pairs)
       IN IF pr.a # act THEN [st EXCEPT !.err = "InvalidAction"]
          ELSE IF ~ValidWeight(pr.w) THEN [st EXCEPT !.err = "InvalidProbability"]
          ELSE SinglePairs([st EXCEPT !.seen = @ \cup {name}], name, act, Tail(pairs))

RECURSIVE ImportFold(_, _, _)
ImportFold(side, st, entries) ==
  IF entries = <<>> \/ st.err # "none" THEN st
  ELSE LET e == Head(entries)
           st2 == IF e.info \in MultiNames(side)
                  THEN LET i == MultiIndex(side, e.info)
                       IN MultiPairs(st, i, side.multi[i].acts, e.acts)
                  ELSE IF e.info \in SingleNames(side)
                  THEN SinglePairs(st, e.info, side.single[SingleIndex(side, e.info)].act, e.acts)
                  ELSE [st EXCEPT !.err = "InvalidInfoset"]
       IN ImportFold(side, st2, Tail(entries))

ImportSide(side, entries) ==
  LET st == ImportFold(side, InitImport(side), entries)
  IN IF st.err # "none" THEN [err |-> st.err, probs |-> <<>>]
     ELSE IF \E i \in 1..Len(side.multi) : SumSeq(st.dense[i]) = 0
          THEN [err |-> "UninitializedInfoset", probs |-> <<>>]
     ELSE IF SingleNames(side) # st.seen
          THEN [err |-> "UninitializedInfoset", probs |-> <<>>]
     ELSE [err |-> "none", probs |-> [i \in 1..Len(side.multi) |-> Normalise(st.dense[i])]]

\* player one is imported completely before player two
Import(sides, lists) ==
  LET a == ImportSide(sides[1], lists[1])
      b == ImportSide(sides[2], lists[2])
  IN IF a.err # "none" THEN [err |-> a.err, probs |-> <<>>]
     ELSE IF b.err # "none" THEN [err |-> b.err, probs |-> <<>>]
     ELSE [err |-> "none", probs |-> <<a.probs, b.probs>>]

\* the declarative twin: the documented success condition, the result, and the violated rules
RealPairs(entries) ==
  UNION {{[info |-> entries[n].info, a |-> entries[n].acts[m].a, w |-> entries[n].acts[m].w,
           n |-> n, m |-> m] : m \in 1..Len(entries[n].acts)} : n \in 1..Len(entries)}

LegalPair(side, pr) ==
  \/ pr.info \in MultiNames(side) /\ pr.a \in SeqToSet(side.multi[MultiIndex(side, pr.info)].acts)
  \/ pr.info \in SingleNames(side) /\ pr.info \notin MultiNames(side)
       /\ pr.a = side.single[SingleIndex(side, pr.info)].act

\* the last valid legal mention of (info, a), if any
LastWeight(side, entries, info, a) ==
  LET S == {pr \in RealPairs(entries) : pr.info = info /\ pr.a = a /\ ValidWeight(pr.w)}
  IN IF S = {} THEN 0
     ELSE WeightOf((CHOOSE pr \in S : \A q \in S : <<q.n, q.m>> = <<pr.n, pr.m>>
                        \/ q.n < pr.n \/ (q.n = pr.n /\ q.m < pr.m)).w)

DeclDense(side, entries) ==
  [i \in 1..Len(side.multi) |->
     [j \in 1..Len(side.multi[i].acts) |->
        LastWeight(side, entries, side.multi[i].name, side.multi[i].acts[j])]]

Covered(side, entries, name) ==
  \E pr \in RealPairs(entries) : pr.info = name /\ LegalPair(side, pr) /\ ValidWeight(pr.w)

ViolatedSide(side, entries) ==
  (IF \E n \in 1..Len(entries) : entries[n].info \notin MultiNames(side) \cup SingleNames(side)
   THEN {"InvalidInfoset"} ELSE {})
  \cup (IF \E pr \in RealPairs(entries) :
             pr.info \in MultiNames(side) \cup SingleNames(side) /\ ~LegalPair(side, pr)
        THEN {"InvalidAction"} ELSE {})
  \cup (IF \E pr \in RealPairs(entries) : ~ValidWeight(pr.w) THEN {"InvalidProbability"} ELSE {})
  \cup (IF \/ \E i \in 1..Len(side.multi) : SumSeq(DeclDense(side, entries)[i]) = 0
           \/ \E name \in SingleNames(side) \ MultiNames(side) : ~Covered(side, entries, name)
        THEN {"UninitializedInfoset"} ELSE {})

Violated(sides, lists) == ViolatedSide(sides[1], lists[1]) \cup ViolatedSide(sides[2], lists[2])

DeclImport(sides, lists) ==
  IF Violated(sides, lists) # {} THEN [ok |-> FALSE, probs |-> <<>>]
  ELSE [ok |-> TRUE,
        probs |-> [p \in 1..2 |-> [i \in 1..Len(sides[p].multi) |->
                                      Normalise(DeclDense(sides[p], lists[p])[i])]]]

\* theorem checked by TLC on every enumerated input: the operational fold meets the contract
ImportMatchesDeclarative(sides, lists) ==
  LET op == Import(sides, lists)
      de == DeclImport(sides, lists)
  IN /\ (op.err = "none") <=> de.ok
     /\ op.err = "none" => op.probs = de.probs
     /\ op.err # "none" => op.err \in Violated(sides, lists)
===============================================================================
