------------------------------- MODULE MC_CfrRun -------------------------------
(***************************************************************************)
(* C08 (initial state, loop, final normalisation), C02 and C03 on short    *)
(* exact trajectories.  For every case written by `harness gen run` -      *)
(* (game, method, parameter tuple with rational discount factors, budget   *)
(* T <= 3, draws of every iteration) - run the documented algorithm from   *)
(* the documented initial state, and print the returned average profile,   *)
(* both bounds, and the exact evaluation (Game.tla) of the returned        *)
(* profile.  Checked on every case: the bound of an unsampled vanilla      *)
(* solve dominates the true regret (C02) and obeys the CFR rate (C03).     *)
(***************************************************************************)
EXTENDS Cfr, Json, IOUtils

Cases == ndJsonDeserialize(IOEnv.CASES)

VARIABLES i, done
vars == <<i, done>>
Init == i \in 1..Len(Cases) /\ done = FALSE

ParOf(x) == IF x[1] = "q" THEN Q(Frac(x[2], x[3])) ELSE IF x[1] = "pinf" THEN PInf ELSE NInf
ParamsOf(c) == Params(ParOf(c.par.a), ParOf(c.par.b), ParOf(c.par.g), ParOf(c.par.w))
DrawOf(d, tree) ==
  [c |-> [lab \in DOMAIN d.c |-> <<Frac(d.c[lab][1][1], d.c[lab][1][2]), Frac(d.c[lab][2][1], d.c[lab][2][2])>>],
   p |-> [q \in 1..2 |-> [inf \in InfoNames(tree, q) |-> Frac(d.p[q][inf][1], d.p[q][inf][2])]]]
DrawsOf(c) == [k \in 1..Len(c.draws) |-> DrawOf(c.draws[k], c.tree)]

AllExact(par, T) == \A t \in 1..T : Exact(par, t)

RECURSIVE AnyTie(_, _, _, _, _, _)
AnyTie(tree, method, par, T, draws, k) ==
  IF k = 0 THEN FALSE
  ELSE AnyTie(tree, method, par, T, draws, k - 1)
         \/ IterTie(tree, Run(tree, method, par, T, draws, k - 1), method, k, par, draws[k])

Result(c) ==
  LET tree == c.tree
      par == ParamsOf(c)
      T == c.T
      draws == DrawsOf(c)
  IN IF ~AllExact(par, T) THEN [status |-> "symbolic"]
     ELSE IF T = 0 THEN [status |-> "ok", tie |-> FALSE, T |-> 0,
                         avg |-> AverageProfile(InitState(tree)), bounds |-> <<Zero, Zero>>,
                         eval |-> Evaluate(tree, WeightProfile(AverageProfile(InitState(tree))))]
     ELSE LET st == Run(tree, c.method, par, T, draws, T)
          IN IF StatePoisoned(st) THEN [status |-> "poisoned"]
             ELSE LET avg == AverageProfile(st)
                      wp == WeightProfile(avg)
                      b1 == BoundOf(st, 1, T)
                      b2 == BoundOf(st, 2, T)
                  IN IF ~WeightsOK(wp) \/ IsPoison(b1) \/ IsPoison(b2) THEN [status |-> "poisoned"]
                     ELSE [status |-> "ok",
                           tie |-> AnyTie(tree, c.method, par, T, draws, T),
                           T |-> T,
                           avg |-> avg,
                           bounds |-> <<b1, b2>>,
                           eval |-> Evaluate(tree, wp)]

\* C02: the total bound of an unsampled vanilla solve dominates the true total regret
BoundDominates(c, res) ==
  (res.status = "ok" /\ c.method = "Full" /\ ParamsOf(c) = Vanilla /\ c.T >= 1 /\ ~res.eval.poisoned)
    => LET b == RMax(res.bounds[1], res.bounds[2])
       IN /\ CmpOK(res.eval.total, b) /\ RLe(res.eval.total, b)
          /\ res.bounds[1][1] >= 0 /\ res.bounds[2][1] >= 0

\* C03 (squared to stay rational): each player's vanilla bound b satisfies b^2 T <= 4 D^2 N^2 A
RateHolds(c, res) ==
  (res.status = "ok" /\ c.method = "Full" /\ ParamsOf(c) = Vanilla /\ c.T >= 1)
    => LET D == PayoffRange(c.tree)
           N == NumInfosets(c.tree)
           A == MaxActions(c.tree)
           rhs == R(4 * D * D * N * N * A)
       IN \A p \in 1..2 : LET lhs == RMul(RMul(res.bounds[p], res.bounds[p]), R(c.T))
                          IN IsPoison(lhs) \/ RLe(lhs, rhs)

Next == /\ ~done
        /\ done' = TRUE
        /\ UNCHANGED i
        /\ LET res == Result(Cases[i])
           IN /\ Assert(BoundDominates(Cases[i], res), <<"C02 BoundDominates fails in the model", Cases[i].id>>)
              /\ Assert(RateHolds(Cases[i], res), <<"C03 RateHolds fails in the model", Cases[i].id>>)
              /\ PrintT(<<"OUT", Cases[i].id, ToJson(res)>>)
Spec == Init /\ [][Next]_vars
================================================================================
