SPECIFICATION Spec
CONSTANT UseMutex = FALSE
CONSTANT SharedScratch = FALSE
INVARIANT ParEqualsSeq
INVARIANT NoLostStrategyUpdate
INVARIANT LockFree
INVARIANT NoDeadlock
PROPERTY Terminates
CHECK_DEADLOCK FALSE
