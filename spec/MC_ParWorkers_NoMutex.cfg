SPECIFICATION Spec
CONSTANT UseMutex = FALSE
CONSTANT SharedScratch = FALSE
CONSTANT TryLock = FALSE
INVARIANT ParEqualsSeq
INVARIANT NoLostStrategyUpdate
INVARIANT LockFree
INVARIANT NoDeadlock
INVARIANT NoPanic
PROPERTY Terminates
CHECK_DEADLOCK FALSE
