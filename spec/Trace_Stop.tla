------------------------------- MODULE Trace_Stop -------------------------------
(***************************************************************************)
(* Trace validation for C09 (impl -> spec).  `harness record stop` first   *)
(* logs, per configuration, a `series` event: the bounds (order tokens)    *)
(* and a digest of the returned strategies of solve(m, t, 0, ..) for every *)
(* prefix t = 1..N (draws pinned, so the runs are prefixes of one          *)
(* another).  Then for each threshold r placed just below, at and just     *)
(* above every total bound of the series (and 0, -1, NaN, +-inf) it logs a *)
(* `run` event of solve(m, N, r, ..): the per-iteration bounds this very   *)
(* run reported (hook log), the returned bounds and the digest.            *)
(* The specification accepts a `run` event iff it is a behaviour of        *)
(* Stop.tla on the run's own bound sequence - it stopped at the first      *)
(* iteration whose total bound is strictly below r, else at N - and, for   *)
(* one thread (bitwise deterministic), iff it is the prefix of length      *)
(* TStar of the series: same bounds, same digest.  `unlimited` events are  *)
(* runs with the budget u64::MAX (the documented "no limit") and a         *)
(* threshold the series is known to cross: they must stop exactly there.   *)
(***************************************************************************)
EXTENDS Float, Json, IOUtils, TLC, FiniteSets

Rec == ndJsonDeserialize(IOEnv.TRACE)

VARIABLES l, series
tvars == <<l, series>>

IsEvent(e) == l <= Len(Rec) /\ Rec[l].e = e /\ l' = l + 1

TraceInit == l = 2 /\ Rec[1].e = "series" /\ series = Rec[1]

Series == IsEvent("series") /\ series' = Rec[l]

Total(b) == TokMax(b[1], b[2])
Below(b, r) == TokLt(Total(b), r)          \* false when r is NaN

\* Stop.tla on tokens: the set of iterations at which the run's own bounds are below r
Hits(bs, n, r) == {t \in 1..n : Below(bs[t], r)}
TStar(bs, n, r) == IF Hits(bs, n, r) = {} THEN n
                   ELSE CHOOSE t \in Hits(bs, n, r) : \A u \in Hits(bs, n, r) : t <= u

RunOK(r) ==
  LET iters == Len(r.iterbounds)
  IN /\ iters <= r.N                                           \* budget never exceeded
     /\ \A t \in 1..(iters - 1) : ~Below(r.iterbounds[t], r.r)     \* not past the first hit
     /\ (iters = r.N \/ (iters >= 1 /\ Below(r.iterbounds[iters], r.r)))  \* stopped for a reason
     /\ (r.N >= 1 => iters >= 1)
     /\ (iters >= 1 => r.ret = r.iterbounds[iters])            \* the returned bounds are the last ones
     /\ (iters < r.N => Below(r.ret, r.r))                     \* returned bound below r when early
     \* prefix of the unthresholded run (bitwise, one thread): TStar from the series
     /\ (r.k = 1 => LET ts == TStar(series.bounds, r.N, r.r)
                    IN /\ iters = ts
                       /\ \A t \in 1..iters : r.iterbounds[t] = series.bounds[t]
                       /\ (ts >= 1 => r.digest = series.digests[ts]))

Run == IsEvent("run") /\ RunOK(Rec[l]) /\ UNCHANGED series

\* budget u64::MAX ("no limit"): the threshold r is one the series crosses within its N iterations, so the run must
\* stop at exactly that iteration (one thread); with several threads r lies above twice every bound of the series and
\* the run must stop for the reason the rule names.  In every case at least one iteration is run
UnlimitedOK(r) ==
  LET iters == Len(r.iterbounds)
  IN /\ iters >= 1
     /\ \A t \in 1..(iters - 1) : ~Below(r.iterbounds[t], r.r)
     /\ Below(r.iterbounds[iters], r.r)
     /\ r.ret = r.iterbounds[iters]
     /\ (r.k = 1 => LET hits == Hits(series.bounds, r.N, r.r)
                        ts == TStar(series.bounds, r.N, r.r)
                    IN /\ hits # {}
                       /\ iters = ts
                       /\ \A t \in 1..iters : r.iterbounds[t] = series.bounds[t]
                       /\ r.digest = series.digests[ts])

Unlimited == IsEvent("unlimited") /\ (UnlimitedOK(Rec[l]) = TRUE) /\ UNCHANGED series

TraceNext == Series \/ Run \/ Unlimited
TraceSpec == TraceInit /\ [][TraceNext]_tvars

TraceAccepted ==
  LET d == TLCGet("stats").diameter
  IN IF d = Len(Rec) THEN TRUE
     ELSE /\ PrintT(<<"REJECT", d + 1, ToJson(Rec[d + 1])>>)
          /\ FALSE
================================================================================
