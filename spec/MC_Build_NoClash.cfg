INIT Init
NEXT Next
CHECK_DEADLOCK FALSE
CONSTANT RecallChecksAction = TRUE
CONSTANT SingleMultiClash = FALSE
INVARIANT InvVerdict
INVARIANT InvErrorKind
INVARIANT InvSemantics
INVARIANT InvCount
INVARIANT InvPrev
