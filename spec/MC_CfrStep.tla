------------------------------ MODULE MC_CfrStep ------------------------------
(***************************************************************************)
(* C08, inductive step.  For every case written by `harness gen step` -    *)
(* (game, method, parameter tuple, iteration index t, an arbitrary state   *)
(* of small rationals for every infoset, the draws of this iteration) -    *)
(* compute the state the documented algorithm reaches after ONE iteration  *)
(* (Cfr.tla) and print it, symbolic where the discount is irrational.      *)
(* `harness replay step` injects the state into the production solver,     *)
(* pins the draws, runs exactly iteration t (single- and multi-threaded)   *)
(* and compares every accumulator, the next strategy and both bounds.      *)
(***************************************************************************)
EXTENDS Cfr, Json, IOUtils

Cases == ndJsonDeserialize(IOEnv.CASES)

VARIABLES i, done
vars == <<i, done>>
Init == i \in 1..Len(Cases) /\ done = FALSE

\* parameters arrive as [a, b, g, w] with entries ["q", n, d] | ["pinf"] | ["ninf"]
ParOf(x) == IF x[1] = "q" THEN Q(Frac(x[2], x[3])) ELSE IF x[1] = "pinf" THEN PInf ELSE NInf
ParamsOf(c) == Params(ParOf(c.par.a), ParOf(c.par.b), ParOf(c.par.g), ParOf(c.par.w))

\* state arrives as <<rec1, rec2>>, rec_p[info] = [r, s, cur] with integer pairs [n, d]
RatSeq(v) == [j \in 1..Len(v) |-> Frac(v[j][1], v[j][2])]
StateOf(c, tree) == [p \in 1..2 |-> [inf \in InfoNames(tree, p) |->
                       [r |-> RatSeq(c.state[p][inf].r), s |-> RatSeq(c.state[p][inf].s),
                        cur |-> RatSeq(c.state[p][inf].cur),
                        tch |-> \E j \in 1..Len(c.state[p][inf].r) : c.state[p][inf].r[j][1] # 0]]]
DrawsOf(c, tree) ==
  [c |-> [lab \in DOMAIN c.draws.c |-> <<Frac(c.draws.c[lab][1][1], c.draws.c[lab][1][2]),
                                          Frac(c.draws.c[lab][2][1], c.draws.c[lab][2][2])>>],
   p |-> [q \in 1..2 |-> [inf \in InfoNames(tree, q) |->
            Frac(c.draws.p[q][inf][1], c.draws.p[q][inf][2])]]]

\* the specified result of one iteration
StepResult(c) ==
  LET tree == c.tree
      par == ParamsOf(c)
      st == StateOf(c, tree)
      dr == DrawsOf(c, tree)
      t == c.t
  IN IF c.method = "External"
     THEN LET a == Apply(st, EContrib(tree, st, 1, dr, 1))
              one == [inf \in DOMAIN a[1] |-> AdvanceSym(a[1][inf], t, t - 1, par)]
              \* player two moves against player one's NEW strategy: needs it to be unique and exact
              unique == \A inf \in DOMAIN a[1] : Cardinality(one[inf].next) = 1
          IN IF ~unique
             THEN [half |-> TRUE, one |-> one, two |-> <<>>]
             ELSE LET b == [a EXCEPT ![1] = [inf \in DOMAIN a[1] |->
                                [a[1][inf] EXCEPT !.cur = CHOOSE x \in one[inf].next : TRUE]]]
                      c2 == Apply(b, EContrib(tree, b, 2, dr, 2))
                  IN [half |-> FALSE, one |-> one,
                      \* player one's average received player two's visits after its own discount:
                      \* emitted separately as the undiscounted increment of this iteration
                      onepost |-> [inf \in DOMAIN a[1] |-> [j \in 1..Len(a[1][inf].s) |->
                                     RSub(c2[1][inf].s[j], b[1][inf].s[j])]],
                      two |-> [inf \in DOMAIN c2[2] |-> AdvanceSym(c2[2][inf], t, t, par)]]
     ELSE LET a == StepPre(tree, st, c.method, dr)
          IN [half |-> FALSE,
              one |-> [inf \in DOMAIN a[1] |-> AdvanceSym(a[1][inf], t, t, par)],
              two |-> [inf \in DOMAIN a[2] |-> AdvanceSym(a[2][inf], t, t, par)]]

Next == /\ ~done
        /\ done' = TRUE
        /\ UNCHANGED i
        /\ PrintT(<<"OUT", Cases[i].id, ToJson(StepResult(Cases[i]))>>)
Spec == Init /\ [][Next]_vars
===============================================================================
