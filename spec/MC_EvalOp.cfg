INIT Init
NEXT Next
CHECK_DEADLOCK FALSE
CONSTANT RecallChecksAction = TRUE
CONSTANT SingleMultiClash = TRUE
INVARIANT InvNoBadRead
INVARIANT InvNoUnderflow
INVARIANT InvLeavesFirst
INVARIANT InvAllResolved
INVARIANT InvDeclarative
