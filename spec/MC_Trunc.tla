------------------------------- MODULE MC_Trunc -------------------------------
(***************************************************************************)
(* C18.  TLC enumerates every grid profile on a game with three infosets   *)
(* (player one: 2 and 3 actions, player two: 2 actions; optionally a wide  *)
(* fourth infoset with up to ten actions) and every                        *)
(* threshold at, between, below and above the probabilities plus the       *)
(* special values; it checks the theorems about the specified Truncate on  *)
(* each, and prints the case with the specified result for replay into     *)
(* Strategies::truncate.                                                   *)
(***************************************************************************)
EXTENDS Strategy, Json, IOUtils

MaxDen == atoi(IOEnv.MAXDEN)

\* weight vectors of length n with total d (compositions of d into n non-negative parts)
RECURSIVE Compositions(_, _)
Compositions(n, d) ==
  IF n = 1 THEN {<<d>>}
  ELSE UNION {{<<a>> \o c : c \in Compositions(n - 1, d - a)} : a \in 0..d}

Grid(n) == UNION {Compositions(n, d) : d \in 1..MaxDen}
\* one representative weight vector per probability vector
Reduced(n) == {w \in Grid(n) : \A j \in 2..SumSeq(w) :
                  ~(\A k \in 1..n : w[k] % j = 0)}

Q(r) == [t |-> "q", v |-> r]
Special == {[t |-> "nan", v |-> Zero], [t |-> "inf", v |-> Zero], [t |-> "ninf", v |-> Zero],
            Q(R(-1)), Q(Zero), Q(One), Q(R(2))}

AllProbs(s) == UNION {{s[i][j] : j \in 1..Len(s[i])} : i \in 1..Len(s)}
Half == <<1, 2>>
Thresholds(s) ==
  LET P == AllProbs(s)
  IN Special \cup {Q(p) : p \in P}
       \cup {Q(RMul(Half, RAdd(p, q))) : p \in P, q \in P}
       \cup {Q(RMul(Half, p)) : p \in P}

VARIABLES wa, wb, wc, wd, h, side, done
vars == <<wa, wb, wc, wd, h, side, done>>

\* wd: an optional second infoset of player two with many actions; probabilities such as 1/10 or 1/7 are
\* not exact in binary floating point, so the stored infoset sums to one only up to rounding
Wide == {[j \in 1..10 |-> 1], [j \in 1..7 |-> 1], <<1, 2, 4>>, <<3, 3, 1>>, [j \in 1..6 |-> IF j = 1 THEN 5 ELSE 1],
         <<1, 2, 3, 2>>, <<5, 1, 1, 3>>,
         \* the LAST action is the small one and the rescaled survivors (3, 10, 6 over 19) are inexact in binary: whatever a
         \* renormalisation does with the rounding residue, a removed action stays at exactly zero
         <<3, 10, 6, 1>>, <<7, 9, 3, 1>>}
S == IF wd = <<>> THEN <<Normalise(wa), Normalise(wb), Normalise(wc)>>
     ELSE <<Normalise(wa), Normalise(wb), Normalise(wc), Normalise(wd)>>

Init == /\ wd \in {<<>>} \cup Wide
        /\ IF wd = <<>> THEN wa \in Reduced(2) /\ wb \in Reduced(3) /\ wc \in {<<1, 1>>, <<1, 0>>, <<1, 3>>}
                         ELSE wa = <<1, 1>> /\ wb \in {<<1, 1, 1>>, <<0, 1, 2>>} /\ wc = <<1, 3>>
        /\ h \in Thresholds(S)
        \* which player owns what: "both" as described above; "swapped" the players exchanged; "two-only" /
        \* "one-only": one player owns every infoset and the other has no decision with several actions
        \* "mean-first" (four-action wd only): one player owns infosets of 3, 2 and 4 actions in this order - the number
        \* of actions of the FIRST equals the mean, although the infosets are not of one size
        /\ side \in {"both", "swapped", "two-only", "one-only"} \cup (IF Len(wd) = 4 THEN {"mean-first", "mean-first-two"} ELSE {})
        /\ done = FALSE

Expected == [i \in 1..Len(S) |-> IF SomeExceeds(S[i], h) THEN [fixed |-> TRUE, v |-> TruncKeep(S[i], h)]
                                                   ELSE [fixed |-> FALSE, v |-> <<>>]]

Next == /\ ~done
        /\ done' = TRUE
        /\ UNCHANGED <<wa, wb, wc, wd, h, side>>
        /\ LET first == <<wa, wb>>
               second == IF wd = <<>> THEN <<wc>> ELSE <<wc, wd>>
               w == IF side = "both" THEN <<first, second>>
                    ELSE IF side = "swapped" THEN <<second, first>>
                    ELSE IF side = "two-only" THEN <<<<>>, first \o second>>
                    ELSE IF side = "mean-first" THEN <<<<wb, wa, wd>>, <<wc>>>>
                    ELSE IF side = "mean-first-two" THEN <<<<wc>>, <<wb, wa, wd>>>>
                    ELSE <<first \o second, <<>>>>
               \* the expected infosets in the order of w (player one's first)
               e == IF side = "swapped"
                    THEN [i \in 1..Len(S) |-> Expected[IF i <= Len(second) THEN 2 + i ELSE i - Len(second)]]
                    ELSE IF side = "mean-first" THEN <<Expected[2], Expected[1], Expected[4], Expected[3]>>
                    ELSE IF side = "mean-first-two" THEN <<Expected[3], Expected[2], Expected[1], Expected[4]>>
                    ELSE Expected
           IN PrintT(<<"OUT", 0, ToJson([w |-> w, h |-> h, exp |-> e])>>)

Spec == Init /\ [][Next]_vars

InvValid == TruncValid(S, h)
InvSupport == TruncSupportExact(S, h)
InvProportional == TruncProportional(S, h)
InvNoOp == TruncNoOpBelowMin(S, h)
InvIdempotent == TruncIdempotent(S, h)
===============================================================================
