INIT Init
NEXT Next
CHECK_DEADLOCK FALSE
INVARIANT InvValid
INVARIANT InvSupport
INVARIANT InvProportional
INVARIANT InvNoOp
INVARIANT InvIdempotent
