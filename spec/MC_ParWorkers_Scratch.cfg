SPECIFICATION Spec
CONSTANT UseMutex = TRUE
CONSTANT SharedScratch = TRUE
CONSTANT AtomicAdd = TRUE
CONSTANT TryLock = FALSE
INVARIANT ParEqualsSeq
INVARIANT NoLostStrategyUpdate
INVARIANT LockFree
INVARIANT NoDeadlock
INVARIANT NoPanic
PROPERTY Terminates
CHECK_DEADLOCK FALSE
