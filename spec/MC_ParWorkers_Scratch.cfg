SPECIFICATION Spec
CONSTANT UseMutex = TRUE
CONSTANT SharedScratch = TRUE
INVARIANT ParEqualsSeq
INVARIANT NoLostStrategyUpdate
INVARIANT LockFree
INVARIANT NoDeadlock
PROPERTY Terminates
CHECK_DEADLOCK FALSE
