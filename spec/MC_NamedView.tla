----------------------------- MODULE MC_NamedView -----------------------------
(* bounded instances of NamedView: every zero pattern on up to two infosets with 2 or 3 actions
   (at least one positive action each) and up to two single-action infosets *)
EXTENDS NamedView, TLC

Patterns(n) == {p \in [1..n -> BOOLEAN] : \E k \in 1..n : p[k]}
AllPos == UNION {[1..m -> Patterns(2) \cup Patterns(3)] : m \in 0..2}
MCGames == {[pos |-> p, ns |-> n] : p \in AllPos, n \in 0..2}
===============================================================================
