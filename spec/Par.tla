---------------------------------- MODULE Par ----------------------------------
(***************************************************************************)
(* How one solver pass is cut into parallel tasks (C06, C07).              *)
(*                                                                         *)
(* A flat game g: g.kids[n] = sequence of child ids of node n (ids are     *)
(* preorder numbers, the root is 1), g.kind[n] in {"T", "C", "P"},         *)
(* g.pl[n] the mover of a decision node, g.info[n] its infoset index (per  *)
(* player) or chance infoset index.                                        *)
(*                                                                         *)
(* A pass is described by                                                  *)
(*   m     the method: "Full", "Sampled" or "External"                     *)
(*   q     the updating player of an External pass (0 otherwise)           *)
(*   pick  pick[n] = the child index followed at a sampled node            *)
(*         (Sampled: chance nodes; External: chance nodes and the          *)
(*         decision nodes of the non-updating player) - determined by the  *)
(*         once-per-pass draw of the node's infoset                        *)
(*   target = 3 * threads                                                  *)
(*                                                                         *)
(* thread_threshold explores from the root until at least `target` nodes   *)
(* are discovered: `queue` holds unexpanded nodes, `work` the children of  *)
(* the expanded ones; it pops the LAST element of queue, and swaps the two *)
(* lists when queue is empty.  Every node left in `queue` becomes a task   *)
(* (an uncached traversal of its subtree whose value is cached under the   *)
(* node), then the root traversal runs and stops at cached nodes.  `work`  *)
(* and the cache must be EMPTY at the start of the next pass.              *)
(***************************************************************************)
EXTENDS Naturals, Sequences, FiniteSets, TLC

Last(s) == s[Len(s)]
Front(s) == SubSeq(s, 1, Len(s) - 1)
Range(s) == {s[j] : j \in 1..Len(s)}

\* the children a traversal of the pass follows at node n
Succ(g, m, q, pick, n) ==
  IF g.kind[n] = "T" THEN <<>>
  ELSE IF g.kind[n] = "C"
       THEN IF m = "Full" THEN g.kids[n] ELSE <<g.kids[n][pick[n]]>>
  ELSE IF m = "External" /\ g.pl[n] # q THEN <<g.kids[n][pick[n]]>>
  ELSE g.kids[n]

\* External: follow the sampled chance / opponent choices down to the updating player's next
\* node; 0 if a terminal is reached first
RECURSIVE NextActive(_, _, _, _)
NextActive(g, q, pick, n) ==
  IF g.kind[n] = "T" THEN 0
  ELSE IF g.kind[n] = "P" /\ g.pl[n] = q THEN n
  ELSE NextActive(g, q, pick, g.kids[n][pick[n]])

\* what popping node n appends to `work`
Expand(g, m, q, pick, n) ==
  IF m = "External"
  THEN LET a == NextActive(g, q, pick, n) IN IF a = 0 THEN <<>> ELSE g.kids[a]
  ELSE Succ(g, m, q, pick, n)

\* one step of the loop of thread_threshold; ws = [queue, work]
LoopEnabled(ws, target) ==
  ~(ws.queue = <<>> /\ ws.work = <<>>) /\ Len(ws.queue) + Len(ws.work) < target
LoopStep(g, m, q, pick, ws) ==
  IF ws.queue # <<>>
  THEN [queue |-> Front(ws.queue), work |-> ws.work \o Expand(g, m, q, pick, Last(ws.queue))]
  ELSE [queue |-> ws.work, work |-> <<>>]

RECURSIVE Loop(_, _, _, _, _, _)
Loop(g, m, q, pick, target, ws) ==
  IF LoopEnabled(ws, target) THEN Loop(g, m, q, pick, target, LoopStep(g, m, q, pick, ws)) ELSE ws

\* thread_threshold from the workspace left by the previous pass (leftover must be <<>>)
Threshold(g, m, q, pick, target, leftover) ==
  Loop(g, m, q, pick, target, [queue |-> <<1>>, work |-> leftover])

\* nodes entered by the uncached traversal from n
RECURSIVE Reach(_, _, _, _, _)
Reach(g, m, q, pick, n) ==
  {n} \cup UNION {Reach(g, m, q, pick, c) : c \in Range(Succ(g, m, q, pick, n))}

\* nodes entered by the root traversal that stops at cached nodes; cached nodes are only read
RECURSIVE ReachCached(_, _, _, _, _, _)
ReachCached(g, m, q, pick, cache, n) ==
  IF n \in cache THEN {}
  ELSE {n} \cup UNION {ReachCached(g, m, q, pick, cache, c) : c \in Range(Succ(g, m, q, pick, n))}
RECURSIVE CacheHits(_, _, _, _, _, _)
CacheHits(g, m, q, pick, cache, n) ==
  IF n \in cache THEN {n}
  ELSE UNION {CacheHits(g, m, q, pick, cache, c) : c \in Range(Succ(g, m, q, pick, n))}

\* the single-threaded pass enters exactly these nodes, each once
Sequential(g, m, q, pick) == Reach(g, m, q, pick, 1)

\* number of times node n is entered by the parallel pass with these tasks and this cache
Entered(g, m, q, pick, tasks, cache, n) ==
  Cardinality({j \in 1..Len(tasks) : n \in Reach(g, m, q, pick, tasks[j])})
    + (IF n \in ReachCached(g, m, q, pick, cache, 1) THEN 1 ELSE 0)

\* ------------------------------------------------------------------ properties of one pass
\* tasks: the queue at spawn time; cache: the nodes with a cached payoff during the root traversal
ExactlyOnce(g, m, q, pick, tasks, cache) ==
  \A n \in 1..Len(g.kids) :
     Entered(g, m, q, pick, tasks, cache, n) = (IF n \in Sequential(g, m, q, pick) THEN 1 ELSE 0)
NoStaleTask(g, m, q, pick, tasks) ==
  \A j \in 1..Len(tasks) : tasks[j] \in Sequential(g, m, q, pick)
CacheIsCurrent(tasks, cache) == cache = Range(tasks)
\* an antichain: no task root below another (else its subtree would be entered twice)
RECURSIVE Below(_, _, _)
Below(g, a, n) == n = a \/ \E c \in Range(g.kids[a]) : Below(g, c, n)
TasksDisjoint(g, tasks) ==
  \A i, j \in 1..Len(tasks) : i # j => ~Below(g, tasks[i], tasks[j])

\* External: infosets of the updating player reached by two different tasks (would race for the lock)
ActiveInfosets(g, m, q, pick, n) ==
  {g.info[x] : x \in {y \in Reach(g, m, q, pick, n) : g.kind[y] = "P" /\ g.pl[y] = q}}
NoLockConflict(g, m, q, pick, tasks) ==
  m = "External" =>
    \A i, j \in 1..Len(tasks) : i # j =>
       ActiveInfosets(g, m, q, pick, tasks[i]) \cap ActiveInfosets(g, m, q, pick, tasks[j]) = {}
================================================================================
