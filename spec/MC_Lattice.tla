------------------------------- MODULE MC_Lattice -------------------------------
(***************************************************************************)
(* C05.  The configuration lattice of Game::solve: every parameter tuple   *)
(* the public constructor accepts with exponents / weight in               *)
(* {-inf, -1000, -1, 0, 1/2, 1, 2, 1000, +inf} (strategy exponent in       *)
(* {0, 1, 2, 1000}), the five presets and None, budgets {0,1,2,3,40},      *)
(* thresholds {-1, 0, tiny, +inf, NaN}, thread counts {0,1,2,3,16} and the *)
(* usize::MAX/3 boundary, the three methods, and a list of games held by   *)
(* the harness (all payoffs equal; a player without decisions; no decision *)
(* at all; dominated actions; payoffs of magnitude 10^6; more threads than *)
(* nodes; ...).                                                            *)
(* TLC enumerates the lattice (a deterministic hash slice), states the     *)
(* specified verdict of each point (ThreadDecision) and emits it for       *)
(* replay under a watchdog.                                                *)
(***************************************************************************)
EXTENDS Cfr, Json, IOUtils

Slice == atoi(IOEnv.SLICE)
Of == atoi(IOEnv.OF)
NumGames == atoi(IOEnv.NUMGAMES)

ESeq == <<NInf, Q(R(-1000)), Q(R(-1)), Q(Zero), Q(<<1, 2>>), Q(One), Q(R(2)), Q(R(1000)), PInf>>
GSeq == <<Q(Zero), Q(One), Q(R(2)), Q(R(1000))>>
ThrSeq == <<"neg", "zero", "tiny", "pinf", "nan">>
ThreadSeq == <<"0", "1", "2", "3", "16", "max3p1", "max">>
MethodSeq == <<"Full", "Sampled", "External">>
BudgetSeq == <<0, 1, 2, 3, 40>>
PresetSeq == <<"vanilla", "lcfr", "cfr_plus", "dcfr", "dcfr_prune", "none">>

\* threads * 3 overflows usize exactly for these
Overflows(th) == th \in {"max3p1", "max"}

\* the documented decision: one thread never errors; otherwise ThreadOverflow iff the task target
\* overflows; a spawn error is admissible only with more than one thread
Verdict(th) == IF th = "1" THEN {"ok"}
               ELSE IF Overflows(th) THEN {"ThreadOverflow"}
               ELSE {"ok", "ThreadSpawnError"}

\* the lattice as a mixed-radix number: parameter choice (tuples, then presets), game, method,
\* budget, threshold, threads
NumTuples == 9 * 9 * 4 * 9
NumPar == NumTuples + 6 * 40      \* every preset (and None) forty times, so that they are not rare
Total == NumPar * NumGames * 3 * 5 * 5 * 7

VARIABLES idx, done
vars == <<idx, done>>

Digit(x, below, radix) == (x \div below) % radix
ParIx == Digit(idx, 1, NumPar)
Game == Digit(idx, NumPar, NumGames) + 1
Method == MethodSeq[Digit(idx, NumPar * NumGames, 3) + 1]
Budget == BudgetSeq[Digit(idx, NumPar * NumGames * 3, 5) + 1]
Thr == ThrSeq[Digit(idx, NumPar * NumGames * 15, 5) + 1]
Th == ThreadSeq[Digit(idx, NumPar * NumGames * 75, 7) + 1]
IsTuple == ParIx < NumTuples
Preset == IF IsTuple THEN "tuple" ELSE PresetSeq[((ParIx - NumTuples) % 6) + 1]
Par == IF IsTuple
       THEN [a |-> ESeq[Digit(ParIx, 1, 9) + 1], b |-> ESeq[Digit(ParIx, 9, 9) + 1],
             g |-> GSeq[Digit(ParIx, 81, 4) + 1], w |-> ESeq[Digit(ParIx, 324, 9) + 1]]
       ELSE [a |-> PInf, b |-> PInf, g |-> Q(Zero), w |-> Q(Zero)]

\* ------------------------------------------------------------------ the dynamic-range family
\* The accumulators are products of discount factors: after T iterations the average strategy of an
\* infoset that was reached only in iteration 1 carries the weight (T+1)^-g, a positive regret
\* discounted with exponent a < 0 the factor prod t^a/(t^a+1).  In exact arithmetic these never
\* vanish; in double precision they pass through the subnormal range and reach zero.  FAMILY =
\* "range" enumerates exponents x budgets whose products sweep 1e-15 .. 1e-3000 on games with an
\* infoset that is reached in the first iteration only.
Family == IOEnv.FAMILY
RG == <<Q(R(50)), Q(R(100)), Q(R(200)), Q(R(300)), Q(R(400)), Q(R(500)), Q(R(700)), Q(R(1000))>>
RT == <<1, 2, 3, 5, 10, 40, 150, 1500>>
RAB == <<<<PInf, PInf>>, <<Q(<<3, 2>>), Q(Zero)>>, <<PInf, NInf>>, <<Q(R(-650)), Q(R(-650))>>,
         <<Q(R(-1000)), PInf>>, <<Q(R(-325)), Q(R(-100))>>>>
RW == <<PInf, Q(Zero), Q(R(-1)), NInf>>
RGames == <<11, 3, 4, 12>>          \* forgotten, rare, dominated, forgotten2 (harness list)
RTotal == 8 * 8 * 6 * 4 * 3 * 2 * 4
RPoint == [game |-> RGames[Digit(idx, 8 * 8 * 6 * 4 * 3 * 2, 4) + 1],
           method |-> MethodSeq[Digit(idx, 8 * 8 * 6 * 4, 3) + 1],
           preset |-> "tuple",
           par |-> [a |-> RAB[Digit(idx, 64, 6) + 1][1], b |-> RAB[Digit(idx, 64, 6) + 1][2],
                    g |-> RG[Digit(idx, 1, 8) + 1], w |-> RW[Digit(idx, 384, 4) + 1]],
           budget |-> RT[Digit(idx, 8, 8) + 1], thr |-> "zero",
           threads |-> <<"1", "2">>[Digit(idx, 8 * 8 * 6 * 4 * 3, 2) + 1],
           verdict |-> {"ok"} \cup (IF Digit(idx, 8 * 8 * 6 * 4 * 3, 2) = 1 THEN {"ThreadSpawnError"} ELSE {}),
           infinite |-> FALSE]

\* ------------------------------------------------------------------ the contention family
\* External sampling with several threads on the game in which one opponent infoset is shared by every
\* parallel task: the mutex of that infoset is contended, so "never panics, never hangs" here means that
\* the lock is a blocking one (ParWorkers.tla, TryLock)
CTotal == 6 * 3 * 2
CPoint == [game |-> 15, method |-> "External", preset |-> PresetSeq[Digit(idx, 1, 6) + 1],
           par |-> [a |-> PInf, b |-> PInf, g |-> Q(Zero), w |-> Q(Zero)],
           budget |-> <<40, 3>>[Digit(idx, 18, 2) + 1], thr |-> "zero",
           threads |-> <<"2", "3", "16">>[Digit(idx, 6, 3) + 1],
           verdict |-> {"ok", "ThreadSpawnError"}, infinite |-> FALSE]

\* ------------------------------------------------------------------ the unlimited family
\* budget u64::MAX ("no limit": what the command-line tool passes for -t 0) with the threshold +infinity: the first
\* iteration's bounds are below it, so the call returns after one iteration - whatever the budget is
UTotal == 6 * 3 * 3 * 4
UPoint == [game |-> <<1, 2, 5, 16>>[Digit(idx, 54, 4) + 1], method |-> MethodSeq[Digit(idx, 6, 3) + 1], preset |-> PresetSeq[Digit(idx, 1, 6) + 1],
           par |-> [a |-> PInf, b |-> PInf, g |-> Q(Zero), w |-> Q(Zero)],
           budget |-> "max", thr |-> "pinf",
           threads |-> <<"1", "2", "3">>[Digit(idx, 18, 3) + 1],
           verdict |-> {"ok", "ThreadSpawnError"}, infinite |-> FALSE]

\* ------------------------------------------------------------------ the constructor family
\* RegretParams::new documents its panics: "if any values are nan, or strat is negative".  Every tuple
\* over {-1, 1, NaN, +inf, -inf} (strat also 0 and 2): it must panic exactly for those; for strat = +inf the
\* documentation is silent and the code refuses, so both outcomes are admissible there.
CVals == <<"neg", "one", "nan", "pinf", "ninf">>
GVals == <<"neg", "zero", "two", "nan", "pinf", "ninf">>
KTotal == 5 * 5 * 6 * 5
KTuple == [a |-> CVals[Digit(idx, 1, 5) + 1], b |-> CVals[Digit(idx, 5, 5) + 1],
           g |-> GVals[Digit(idx, 25, 6) + 1], w |-> CVals[Digit(idx, 150, 5) + 1]]
KMustPanic(t) == t.a = "nan" \/ t.b = "nan" \/ t.w = "nan" \/ t.g \in {"nan", "neg", "ninf"}
KPoint == [ctor |-> KTuple,
           verdict |-> IF KMustPanic(KTuple) THEN {"panic"}
                       ELSE IF KTuple.g = "pinf" THEN {"ok", "panic"} ELSE {"ok"}]

TotalOf == IF Family = "range" THEN RTotal ELSE IF Family = "contention" THEN CTotal
           ELSE IF Family = "ctor" THEN KTotal ELSE IF Family = "unlimited" THEN UTotal ELSE Total

\* a deterministic slice: every Of-th point starting at Slice
Init == /\ idx \in {Slice + k * Of : k \in 0..((TotalOf - 1 - Slice) \div Of)}
        /\ done = FALSE

Next == /\ ~done
        /\ done' = TRUE
        /\ UNCHANGED idx
        /\ IF Family = "range" THEN PrintT(<<"OUT", idx, ToJson(RPoint)>>)
           ELSE IF Family = "contention" THEN PrintT(<<"OUT", idx, ToJson(CPoint)>>)
           ELSE IF Family = "ctor" THEN PrintT(<<"OUT", idx, ToJson(KPoint)>>)
           ELSE IF Family = "unlimited" THEN PrintT(<<"OUT", idx, ToJson(UPoint)>>)
           ELSE PrintT(<<"OUT", idx, ToJson([game |-> Game, method |-> Method, preset |-> Preset, par |-> Par,
                                        budget |-> Budget, thr |-> Thr, threads |-> Th,
                                        verdict |-> Verdict(Th), infinite |-> Budget = 0])>>)
Spec == Init /\ [][Next]_vars
================================================================================
