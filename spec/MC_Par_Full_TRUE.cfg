SPECIFICATION Spec
CONSTANT MaxNodes = 11
CONSTANT Targets = {3, 6, 9}
CONSTANT Passes = 3
CONSTANT Method = "Full"
CONSTANT ClearWorkspace = TRUE
CHECK_DEADLOCK FALSE
INVARIANT InvExactlyOnce
INVARIANT InvNoStaleTask
INVARIANT InvCacheCurrent
INVARIANT InvDisjoint
INVARIANT InvNoLockConflict
