--------------------------------- MODULE Float ---------------------------------
(***************************************************************************)
(* Floats in traces (DESIGN 3.1).  TLC cannot hold a float, and the Json   *)
(* module silently truncates decimals, so the harness logs a float x as    *)
(*   - an order token <<"tok", h, m, l>>: the total-order key of the f64   *)
(*     split into three limbs, so that = and < between two logged floats   *)
(*     are decided exactly here; <<"nan">> for NaN (every comparison false)*)
(*   - directed micro-units floor(x * 10^6) / ceil(x * 10^6) for           *)
(*     inequalities between quantities (sound in the direction used).      *)
(***************************************************************************)
EXTENDS Integers, Sequences

IsNaN(a) == a[1] = "nan"
TokLt(a, b) == /\ ~IsNaN(a) /\ ~IsNaN(b)
               /\ \/ a[2] < b[2]
                  \/ a[2] = b[2] /\ a[3] < b[3]
                  \/ a[2] = b[2] /\ a[3] = b[3] /\ a[4] < b[4]
TokEq(a, b) == ~IsNaN(a) /\ ~IsNaN(b) /\ a = b
TokLe(a, b) == TokLt(a, b) \/ TokEq(a, b)
\* f64::max semantics on two non-NaN tokens
TokMax(a, b) == IF TokLt(a, b) THEN b ELSE a

\* tokens of 0.0 and +infinity (computed by the same encoding in the harness: see util::token)
TokZero == <<"tok", 524288, 0, 0>>
TokPosInf == <<"tok", 1048320, 0, 0>>
IsPosInf(a) == a = TokPosInf

\* integer square roots
RECURSIVE SqrtSearch(_, _, _)
SqrtSearch(n, lo, hi) ==      \* largest r in lo..hi with r * r <= n   (hi * hi must fit 32 bits)
  IF lo >= hi THEN lo
  ELSE LET mid == (lo + hi + 1) \div 2
       IN IF mid * mid <= n THEN SqrtSearch(n, mid, hi) ELSE SqrtSearch(n, lo, mid - 1)
SqrtFloor(n) == SqrtSearch(n, 0, 46340)
SqrtCeil(n) == LET r == SqrtFloor(n) IN IF r * r = n THEN r ELSE r + 1
================================================================================
