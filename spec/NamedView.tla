------------------------------ MODULE NamedView ------------------------------
(***************************************************************************)
(* C13.  The iterator protocol behind Strategies::as_named for ONE player  *)
(* as a state machine: an outer iterator over infosets (multi-action       *)
(* infosets in index order, then the single-action ones in an order the    *)
(* specification leaves open) and, for the item yielded last, an inner     *)
(* iterator over (action, probability) pairs that skips zero-probability   *)
(* actions.  Both advertise an exact length.                               *)
(*                                                                         *)
(* The design question the model settles: WHAT must len() count so that it *)
(* equals the number of items still to come at every prefix?  The constant *)
(* LenCountsCells selects the alternative design (count the remaining      *)
(* probability cells / zipped actions, which is what the pinned code did). *)
(***************************************************************************)
EXTENDS Naturals, Sequences, FiniteSets

CONSTANTS Games,          \* the set of (one player's sides of) games explored; a game is
                          \* [pos |-> Pos, ns |-> NumSingles] where Pos[i][j] says whether the
                          \* probability of action j of multi-action infoset i is positive
          LenCountsCells  \* TRUE: the rejected design

VARIABLES game,    \* the game and profile being iterated (never changes)
          opos,    \* outer items yielded so far
          singles, \* set of single-action infosets (1..NumSingles) not yet yielded
          inner    \* the inner iterator of the item yielded last
vars == <<game, opos, singles, inner>>

Pos == game.pos
NumSingles == game.ns
NumMulti == Len(Pos)
NoInner == [kind |-> "none", i |-> 0, j |-> 0]

Start(g) == game = g /\ opos = 0 /\ singles = 1..g.ns /\ inner = NoInner
Init == \E g \in Games : Start(g)

\* ---------------------------------------------------------------- lengths
RECURSIVE SumLens(_, _)
SumLens(i, n) == IF i > n THEN 0 ELSE Len(Pos[i]) + SumLens(i + 1, n)

OuterRemaining == (IF opos < NumMulti THEN NumMulti - opos ELSE 0) + Cardinality(singles)
OuterAdvertised ==
  IF LenCountsCells
  THEN (IF opos < NumMulti THEN SumLens(opos + 1, NumMulti) ELSE 0) + Cardinality(singles)
  ELSE OuterRemaining

PositiveFrom(i, j) == Cardinality({k \in j..Len(Pos[i]) : Pos[i][k]})
InnerRemaining ==
  IF inner.kind = "multi" THEN PositiveFrom(inner.i, inner.j)
  ELSE IF inner.kind = "single" THEN 1 - inner.j
  ELSE 0
InnerAdvertised ==
  IF inner.kind = "multi" /\ LenCountsCells THEN Len(Pos[inner.i]) - inner.j + 1
  ELSE InnerRemaining

\* ---------------------------------------------------------------- actions
OuterNextMulti == /\ opos < NumMulti
                  /\ opos' = opos + 1
                  /\ inner' = [kind |-> "multi", i |-> opos + 1, j |-> 1]
                  /\ UNCHANGED <<game, singles>>

OuterNextSingle(s) == /\ opos >= NumMulti
                      /\ s \in singles
                      /\ singles' = singles \ {s}
                      /\ opos' = opos + 1
                      /\ inner' = [kind |-> "single", i |-> s, j |-> 0]
                      /\ UNCHANGED game

\* exhausted: next() returns None and the iterator stays exhausted (fused)
OuterNextNone == /\ opos >= NumMulti /\ singles = {}
                 /\ UNCHANGED vars

NextPositive(i, j) == CHOOSE k \in j..Len(Pos[i]) : Pos[i][k] /\ \A m \in j..(k - 1) : ~Pos[i][m]

InnerNextMulti == /\ inner.kind = "multi"
                  /\ PositiveFrom(inner.i, inner.j) > 0
                  /\ inner' = [inner EXCEPT !.j = NextPositive(inner.i, inner.j) + 1]
                  /\ UNCHANGED <<game, opos, singles>>

InnerNextSingle == /\ inner.kind = "single" /\ inner.j = 0
                   /\ inner' = [inner EXCEPT !.j = 1]
                   /\ UNCHANGED <<game, opos, singles>>

InnerNextNone == /\ inner.kind # "none"
                 /\ InnerRemaining = 0
                 /\ UNCHANGED vars

OuterYield == OuterNextMulti \/ \E s \in singles : OuterNextSingle(s)
InnerYield == InnerNextMulti \/ InnerNextSingle

Next == OuterYield \/ OuterNextNone \/ InnerYield \/ InnerNextNone
Spec == Init /\ [][Next]_vars

\* ------------------------------------------------------------- properties
\* the advertised length is the number of items still to come, at every prefix:
\* it drops by exactly one with every yielded item and is zero exactly when exhausted
OuterLenExact == [][OuterYield => OuterAdvertised' = OuterAdvertised - 1]_vars
InnerLenExact == [][InnerYield => InnerAdvertised' = InnerAdvertised - 1]_vars
OuterZeroIffDone == (OuterAdvertised = 0) <=> (opos >= NumMulti /\ singles = {})
InnerZeroIffDone == inner.kind # "none" => ((InnerAdvertised = 0) <=> ~ENABLED InnerYield)
\* an inner step yields the next positive action and skips zeros only: together with InnerZeroIffDone the items of one
\* infoset are exactly Listing(i) - its positive actions in order - however the iterator is consumed (Trace_NamedView
\* demands the same listing of count / fold / last / nth on the real iterators)
Listing(i) == SelectSeq([k \in 1..Len(Pos[i]) |-> k], LAMBDA k : Pos[i][k])
InnerYieldsNextPositive ==
  [][InnerNextMulti => /\ Pos[inner.i][inner'.j - 1]
                       /\ \A m \in inner.j..(inner'.j - 2) : ~Pos[inner.i][m]]_vars
\* every infoset is listed exactly once: the outer iterator yields NumMulti + NumSingles items
EachInfosetOnce == opos <= NumMulti + NumSingles /\ (opos >= NumMulti => opos = NumMulti + NumSingles - Cardinality(singles))
===============================================================================
