"""Per-property checks.  Each check_<id>(run, replay) drives TLC and the harness and reports into
`run`; see DESIGN.md section 4 for what each one decides."""
import json
import os

from vlib import (ROOT, WORK, ToolError, build_cli, build_harness, canon, harness, log, read_ndjson, tlc,
                  write_ndjson)

LEVELS = {
    "C01": "model_checking",
}


def replay_case(replay):
    with open(replay) as f:
        d = json.load(f)
    return d["detail"]


def oracle_pipeline(run, module, what, cases_path, tag="OUT", timeout=900, env=None, extra_replay=None):
    """cases -> TLC oracle (spec/<module>) -> exp -> harness replay <what> -> result rows"""
    e = {"CASES": cases_path}
    if env:
        e.update(env)
    res = tlc(module, env=e, timeout=timeout)
    run.add_tlc(res)
    exp_path = cases_path.replace(".ndjson", ".exp.ndjson")
    write_ndjson(exp_path, [{"id": i, "exp": v} for (i, v) in res.out(tag)])
    out_path = cases_path.replace(".ndjson", ".res.ndjson")
    args = ["replay", what, "--cases", cases_path, "--exp", exp_path, "--out", out_path]
    if extra_replay:
        args += extra_replay
    harness(args)
    return read_ndjson(out_path)


def absorb(run, rows, cases_by_id, sig_of=None):
    """standard accounting of replay rows"""
    for r in rows:
        st = r.get("status")
        case = cases_by_id.get(r["id"])
        if st == "ok":
            run.evaluated(canon(case), r.get("nontrivial", True))
            run.traces += 1
            run.sample({"case": case, "result": "ok"})
        elif st == "violation":
            run.evaluated(canon(case), True)
            run.traces += 1
            sig = sig_of(r, case) if sig_of else r.get("what", "violation")
            run.violation(sig, {"case": case, "result": r})
        elif st == "deviation":
            run.evaluated(canon(case), True)
            run.traces += 1
            run.count("model_deviation")
        else:
            run.count(str(st))


# ------------------------------------------------------------------------------------------ C01
def check_C01(run, replay):
    run.rule = ("cases = (raw game tree, integer-weight profile); seeded perfect-recall trees from `harness gen eval` "
                "(depth<=5, <=40 nodes, <=200 pure strategies per player; one third pure, one third sparse, one third "
                "full-support profiles; half dyadic); TLC evaluates spec/Game.tla (expected utility, brute-force best "
                "response over all pure strategies) exactly; replay compares get_info() at 1e-11; non-trivial = the "
                "game has at least one multi-action infoset; distinct by canonical JSON of the case")
    run.assumptions = ["f64 evaluation of a depth<=5 game is within 1e-11 of the exact rational value",
                       "TLC evaluates the TLA+ operators of Rat.tla / Game.tla correctly"]
    cases_path = run.path("cases.ndjson")
    if replay:
        write_ndjson(cases_path, [replay_case(replay)["case"]])
    else:
        n = 300 if run.tier == "quick" else 3000
        harness(["gen", "eval", "--seed", run.seed, "--n", n, "--out", cases_path])
    cases = read_ndjson(cases_path)
    rows = oracle_pipeline(run, "MC_Eval", "eval", cases_path, timeout=3000)
    absorb(run, rows, {c["id"]: c for c in cases})
