"""Per-property checks.  Each check_<id>(run, replay) drives TLC and the harness and reports into
`run`; see DESIGN.md section 4 for what each one decides."""
import json
import os

from vlib import (ROOT, WORK, ToolError, build_cli, build_harness, canon, harness, log, read_ndjson, tlc,
                  write_ndjson)

LEVELS = {
    "C01": "model_checking",
}


def replay_case(replay):
    with open(replay) as f:
        d = json.load(f)
    return d["detail"]


def oracle_pipeline(run, module, what, cases_path, tag="OUT", timeout=900, env=None, extra_replay=None):
    """cases -> TLC oracle (spec/<module>) -> exp -> harness replay <what> -> result rows"""
    e = {"CASES": cases_path}
    if env:
        e.update(env)
    res = tlc(module, env=e, timeout=timeout)
    run.add_tlc(res)
    exp_path = cases_path.replace(".ndjson", ".exp.ndjson")
    write_ndjson(exp_path, [{"id": i, "exp": v} for (i, v) in res.out(tag)])
    out_path = cases_path.replace(".ndjson", ".res.ndjson")
    args = ["replay", what, "--cases", cases_path, "--exp", exp_path, "--out", out_path]
    if extra_replay:
        args += extra_replay
    harness(args)
    return read_ndjson(out_path)


def absorb(run, rows, cases_by_id, sig_of=None):
    """standard accounting of replay rows"""
    for r in rows:
        st = r.get("status")
        case = cases_by_id.get(r["id"])
        if st == "ok":
            run.evaluated(canon(case), r.get("nontrivial", True))
            run.traces += 1
            run.sample({"case": case, "result": "ok"})
        elif st == "violation":
            run.evaluated(canon(case), True)
            run.traces += 1
            sig = sig_of(r, case) if sig_of else r.get("what", "violation")
            run.violation(sig, {"case": case, "result": r})
        elif st == "deviation":
            run.evaluated(canon(case), True)
            run.traces += 1
            run.count("model_deviation")
        else:
            run.count(str(st))


# ------------------------------------------------------------------------------------------ C01
def check_C01(run, replay):
    run.rule = ("cases = (raw game tree, integer-weight profile); seeded perfect-recall trees from `harness gen eval` "
                "(depth<=5, <=60 nodes, <=200 pure strategies per player; one third pure, one third sparse, one third "
                "full-support profiles; half dyadic); TLC evaluates spec/Game.tla (expected utility, brute-force best "
                "response over all pure strategies) exactly; replay compares get_info() at 1e-11; non-trivial = the "
                "game has at least one multi-action infoset; distinct by canonical JSON of the case; every fourth case with a root decision also as its EXTREME variant (root weights 2^60 : 1, payoffs x 2^60 below the rare action: utility and the other player's regret are twice those of the even mixture); plus the valid trees of U-tiny "
                "(MC_Build's universe, hash slice) x every profile on the grid {(1,0),(0,1),(1,1)} per infoset; "
                "model: Eval.tla (operational evaluator: collect, pop in ANY admissible order, search) checked by TLC on the "
                "same cases and on U-tiny for NoBadRead / NoUnderflow / ResolvedLeavesFirst / AllReachedResolved / "
                "MatchesDeclarative (and refuted without the action in the recall rule, MC_EvalOpTiny_NoAction.cfg); histories: "
                "MC_History.tla - the profile as a stateful object, every sequence of {evaluate, truncate at 1/4, 1/2, 3/5, clone, "
                "re-import} of length 3 (4 thorough) that observes after a mutation, replayed on ONE real object; and of {evaluate, "
                "truncate at 1/4, 3/5, snapshot, swap, distance(object, snapshot, 1)} on a PAIR of objects")
    run.assumptions = ["f64 evaluation of a depth<=5 game is within 1e-11 of the exact rational value",
                       "TLC evaluates the TLA+ operators of Rat.tla / Game.tla correctly"]
    if replay:
        case = replay_case(replay)["case"]
        if "exp" in case:
            cases, rows = replay_pipeline(run, "eval", case)
            absorb(run, rows, cases, mismatch_sig("eval"))
            return
        cases_path = run.path("cases.ndjson")
        write_ndjson(cases_path, [case])
    else:
        cases_path = run.path("cases.ndjson")
        n = 300 if run.tier == "quick" else 4000
        harness(["gen", "eval", "--seed", run.seed, "--n", n, "--out", cases_path])
    cases = read_ndjson(cases_path)
    rows = oracle_pipeline(run, "MC_Eval", "eval", cases_path, timeout=3000)
    absorb(run, rows, {c["id"]: c for c in cases}, mismatch_sig("eval"))
    if replay:
        return
    # the profile as a stateful object: every operation sequence of length 3 (4 thorough) on a few cases
    hist_path = run.path("hist.ndjson")
    write_ndjson(hist_path, cases[:10 if run.tier == "quick" else 60])
    res = tlc("MC_History", env={"CASES": hist_path, "DEPTH": 3 if run.tier == "quick" else 4}, timeout=6000)
    run.add_tlc(res)
    hrecs = res.out("OUT")
    # ... and two objects (object + snapshot): snap / swap / distance between them
    res = tlc("MC_History", env={"CASES": hist_path, "DEPTH": 3 if run.tier == "quick" else 4, "OPSET": "pair"}, timeout=6000)
    run.add_tlc(res)
    hrecs = hrecs + res.out("OUT")
    hexp = run.path("hist.exp.ndjson")
    write_ndjson(hexp, [{"id": n, "exp": v} for n, (_, v) in enumerate(hrecs)])
    hout = run.path("hist.res.ndjson")
    harness(["replay", "history", "--cases", hist_path, "--exp", hexp, "--out", hout])
    absorb(run, read_ndjson(hout), {n: v for n, (_, v) in enumerate(hrecs)}, mismatch_sig("eval"))
    run.notes["histories"] = len(hrecs)
    # the operational model of the evaluator (Eval.tla): every resolution order, on a prefix of the cases
    op_path = run.path("op.ndjson")
    write_ndjson(op_path, cases[:120 if run.tier == "quick" else 1500])
    res = tlc("MC_EvalOp", env={"CASES": op_path}, timeout=6000, coverage=True)
    run.add_tlc(res)
    run.notes["operational_model"] = {"cases": len(cases[:120 if run.tier == "quick" else 1500]), "states": res.distinct,
                                      "pop_steps": res.coverage.get("Pop", 0)}
    # impl -> spec: the order in which the real evaluator resolves infosets (event hook) is a behaviour of Eval.tla
    trace = run.path("evaltrace.ndjson")
    tr_cases = run.path("evaltrace.cases.ndjson")
    write_ndjson(tr_cases, cases[:300 if run.tier == "quick" else 4000])
    info = json.loads(harness(["record", "eval", "--cases", tr_cases, "--out", trace]).strip().splitlines()[-1])
    for f in info["failed"][:5]:
        run.violation("eval:failed", {"case": f})
    validate_trace(run, "Trace_Eval", trace, "eval:order", {"seed": run.seed}, timeout=6000)
    run.notes["operational_model"]["recorded_evaluations"] = info["events"]
    run.notes["operational_model"]["recorded_pops"] = info["pops"]
    # exhaustive small universe: valid trees of U-tiny x grid profiles
    of = 32 if run.tier == "quick" else 2
    cases2, rows2 = enumerate_pipeline(run, "MC_EvalTiny", "eval", env={"SLICE": run.seed % of, "OF": of}, timeout=6000,
                                       name="tiny")
    absorb(run, rows2, cases2, mismatch_sig("eval"))
    res = tlc("MC_EvalOpTiny", env={"SLICE": run.seed % (2 * of), "OF": 2 * of}, timeout=6000)
    run.add_tlc(res)
    run.notes["operational_model"]["tiny_states"] = res.distinct


def enumerate_pipeline(run, module, what, env=None, timeout=900, tag="OUT", extra_replay=None, name="enum",
                       simulate=None, depth=None, workers=16):
    """TLC enumerates cases and their specified outcome (spec/<module>) -> harness replay <what>"""
    res = tlc(module, env=env, timeout=timeout, simulate=simulate, depth=depth, workers=workers)
    run.add_tlc(res)
    recs = res.out(tag)
    exp_path = run.path(name + ".exp.ndjson")
    write_ndjson(exp_path, [{"id": n, "exp": v} for n, (_, v) in enumerate(recs)])
    out_path = run.path(name + ".res.ndjson")
    args = ["replay", what, "--exp", exp_path, "--out", out_path]
    if extra_replay:
        args += extra_replay
    harness(args)
    return {n: v for n, (_, v) in enumerate(recs)}, read_ndjson(out_path)


def enumerate_stream(run, module, what, sig_of, env=None, timeout=900, name="enum", extra_replay=None):
    """enumerate_pipeline + absorb for enumerations of millions of cases: nothing is held in memory but the rows that
    are not "ok" and one digest per distinct case"""
    import hashlib
    from vlib import tlc_stream, iter_ndjson
    exp_path = run.path(name + ".exp.ndjson")
    res, n = tlc_stream(module, exp_path, env=env, timeout=timeout)
    run.add_tlc(res)
    out_path = run.path(name + ".res.ndjson")
    harness(["replay", what, "--exp", exp_path, "--out", out_path] + (extra_replay or []), timeout=3600)
    status = {}
    special = {}
    classes = {}
    for r in iter_ndjson(out_path):
        st = r.get("status")
        for k in ([("%s | %s" % (m.get("class"), m.get("what"))) for m in r.get("mismatch", [])] if st == "violation" else [st]):
            classes[k] = classes.get(k, 0) + 1
        if st == "ok" and r.get("nontrivial", True):
            status[r["id"]] = 1
        elif st == "ok":
            status[r["id"]] = 0
        else:
            status[r["id"]] = 2
            special[r["id"]] = r
    if len(status) != n:
        raise ToolError("harness replay %s answered %d of %d cases" % (what, len(status), n))
    for rec in iter_ndjson(exp_path):
        i, case = rec["id"], rec["exp"]
        key = hashlib.blake2b(canon(case).encode(), digest_size=12).hexdigest()
        st = status.get(i)
        if st in (0, 1):
            run.evaluated(key, st == 1)
            run.traces += 1
            run.sample({"case": case, "result": "ok"})
        else:
            absorb(run, [special[i]], {i: case}, sig_of)
    return classes


def tlaps(name, what):
    """machine-check spec/proofs/<name> from scratch (no cached fingerprints); returns the number of obligations proved"""
    from vlib import sh, SPEC
    import re
    import shutil
    cache = os.path.join(SPEC, "proofs", ".tlacache")
    shutil.rmtree(cache, ignore_errors=True)
    rc, out = sh(["timeout", "600", "tlapm", "--threads", "8", "-I", "..", name], cwd=os.path.join(SPEC, "proofs"), timeout=700)
    shutil.rmtree(cache, ignore_errors=True)
    m = re.search(r"All (\d+) obligations proved", out)
    if not m:
        raise ToolError("TLAPS proof of %s (spec/proofs/%s) failed:\n%s" % (what, name, out[-1500:]))
    return int(m.group(1))


def replay_pipeline(run, what, case, extra_replay=None):
    """re-run one emitted case (a --replay file) through the harness"""
    exp_path = run.path("replay.exp.ndjson")
    write_ndjson(exp_path, [{"id": 0, "exp": case}])
    out_path = run.path("replay.res.ndjson")
    args = ["replay", what, "--exp", exp_path, "--out", out_path]
    if extra_replay:
        args += extra_replay
    harness(args)
    return {0: case}, read_ndjson(out_path)


def mismatch_sig(prefix):
    def f(r, case):
        ms = r.get("mismatch") or [{}]
        m = ms[0]
        return "%s:%s:%s" % (prefix, m.get("class", "-"), m.get("what", r.get("what", "violation")))
    return f


# ------------------------------------------------------------------------------------------ C18
LEVELS["C18"] = "model_checking"


def check_C18(run, replay):
    run.rule = ("TLC enumerates every reduced grid profile (denominators <= MAXDEN) on three infosets (2, 3, 2 actions) x "
                "every threshold in {each probability, each midpoint of two probabilities, half of each probability, "
                "-1, 0, 1, 2, NaN, +inf, -inf}; checks TruncValid / SupportExact / Proportional / NoOpBelowMin / Idempotent "
                "of the specified Truncate on each; each case is replayed into from_named -> truncate -> dense vector; "
                "non-trivial = some infoset has an action above the threshold; distinct by canonical JSON; ownership variants in which one player owns infosets of 3, 2 and 4 actions")
    run.assumptions = ["probabilities w/total and thresholds n/d are correctly rounded f64 divisions of small integers, so "
                       "comparisons at a probability are decided identically in f64 and in exact arithmetic"]
    if replay:
        cases, rows = replay_pipeline(run, "trunc", replay_case(replay)["case"])
    else:
        maxden = 3 if run.tier == "quick" else 5
        cases, rows = enumerate_pipeline(run, "MC_Trunc", "trunc", env={"MAXDEN": maxden}, timeout=3000)
        run.exhaustive = True
    absorb(run, rows, cases, mismatch_sig("truncate"))


# ------------------------------------------------------------------------------------------ C19
LEVELS["C19"] = "model_checking"


def check_C19(run, replay):
    run.rule = ("TLC enumerates pairs of reduced grid profiles (denominators <= MAXDEN) on a game where player one has a "
                "2-action and a 3-action infoset and player two has none or one 2-action infoset x exponents "
                "{1/2,1,3/2,2,3,10,0,-1}; emits which players' strategies coincide and whether the call must panic, and "
                "checks the demanded facts on a reference distance; each pair is replayed into distance() both ways round "
                "(and against itself); non-trivial = positive p and the profiles differ; distinct by canonical JSON; profiles that differ by 2.5e-4 / 2.5e-7; identity of game objects for all pairs of shapes (with / without several-action infosets)")
    run.assumptions = ["symmetry is judged bitwise or within 1e-15"]
    if replay:
        cases, rows = replay_pipeline(run, "dist", replay_case(replay)["case"])
    else:
        maxden = 2 if run.tier == "quick" else 3
        cases, rows = enumerate_pipeline(run, "MC_Dist", "dist", env={"MAXDEN": maxden}, timeout=3000)
        run.exhaustive = True
    absorb(run, [r for r in rows if r["id"] in cases], cases, mismatch_sig("distance"))
    for r in rows:
        if r["id"] not in cases and r["status"] == "violation":
            run.violation(mismatch_sig("distance")(r, None), {"case": "profiles of two different games", "result": r})


# ------------------------------------------------------------------------------------------ C14
LEVELS["C14"] = "model_checking"


def check_C14(run, replay):
    run.rule = ("TLC builds every entry list of one player up to MAXENTRIES entries / MAXPAIRS (action, weight) pairs over "
                "existing / foreign / other-player infosets, legal / illegal / repeated actions, weights {-1,0,1,2,3,NaN,+-inf} "
                "x scale classes {1, 2^-1070, 2^1000, 2^1023}, with the other player's list valid or empty, on two games that "
                "share names between players and have single-action infosets; every state checks ImportMatchesDeclarative "
                "(operational fold = documented contract) and is replayed into from_named and from_named_eq; "
                "distinct by canonical JSON; every case is non-trivial (it exercises the import); a game in which one player never moves")
    run.assumptions = ["'covered' for a single-action infoset means: mentioned with its action and a valid weight (taken from "
                       "the code, DESIGN 4 C14 limits)"]
    if replay:
        cases, rows = replay_pipeline(run, "import", replay_case(replay)["case"])
    else:
        env = {"SLIM": 1, "MAXPAIRS": 2, "MAXENTRIES": 2} if run.tier == "quick" else {"SLIM": 0, "MAXPAIRS": 2, "MAXENTRIES": 2}
        run.exhaustive = True
        enumerate_stream(run, "MC_Import", "import", mismatch_sig("import"), env=env, timeout=3000)
        return
    absorb(run, rows, cases, mismatch_sig("import"))


def validate_trace(run, module, trace_path, sig, context, timeout=1800, env=None):
    """impl -> spec: the recorded trace must be a behaviour of spec/<module>"""
    from vlib import tlc_trace
    ok, line, rec, res = tlc_trace(module, trace_path, timeout=timeout, env=env)
    run.add_tlc(res)
    if not ok:
        lines = open(trace_path).read().splitlines()
        ctx = lines[max(0, (line or 1) - 6):(line or 1)] if line and line > 0 else []
        run.violation(sig(rec) if callable(sig) else sig,
                      {"trace_spec": module, "first_unexplained_line": line, "record": rec,
                       "preceding_lines": ctx, "context": context})
    return ok


# ------------------------------------------------------------------------------------------ C13
LEVELS["C13"] = "model_checking"


def check_C13(run, replay):
    run.rule = ("model: NamedView.tla checked by TLC for every zero pattern on <=2 multi-action infosets (2 or 3 actions) and "
                "<=2 single-action infosets (len drops by one per item, is zero iff exhausted, each infoset once); traces: "
                "`harness record named` walks as_named() of imported (pure / sparse / full), truncated and solved (Full / "
                "Sampled / External, T in {0,1,5,50}) profiles on seeded games with single-action infosets, len() before "
                "every next() and after exhaustion, plus the from_named(as_named()) round trip; TLC validates every event "
                "against Trace_NamedView.tla; one 'evaluation' = one walked profile; distinct = distinct (game, label) runs; internal iteration: fresh iterators consumed by count / fold / last / nth and for_each must list the same items")
    run.assumptions = ["round trip judged at 1e-13 relative per entry", "order of single-action infosets is left open by the spec"]
    res = tlc("MC_NamedView", timeout=600)
    run.add_tlc(res)
    if replay:
        d = replay_case(replay)
        seed, n = d["context"]["seed"], d["context"]["n"]
    else:
        seed, n = run.seed, (40 if run.tier == "quick" else 600)
    trace = run.path("trace.ndjson")
    out = harness(["record", "named", "--seed", seed, "--n", n, "--out", trace])
    info = json.loads(out.strip().splitlines()[-1])
    for f in info.get("failed", [])[:5]:
        run.violation("named:rejected", {"event": f, "context": {"seed": seed, "n": n}})
    ok = validate_trace(run, "Trace_NamedView", trace,
                        lambda rec: "named:%s" % (rec or {}).get("e", "?"), {"seed": seed, "n": n})
    run.traces += info["runs"]
    run.evaluations += info["runs"]
    # distinct runs: count distinct reset lines
    seen = set()
    with open(trace) as f:
        for line in f:
            if line.startswith('{"e":"reset"') and '"player":1' in line:
                seen.add(line)
    run.distinct |= seen
    run.notes["trace_events"] = info["events"]
    for s in info["samples"]:
        run.sample(s)
    with open(trace) as f:
        run.sample({"trace_head": [json.loads(next(f)) for _ in range(6)]}, limit=4)


def class_counts(rows):
    c = {}
    for r in rows:
        if r.get("status") == "violation":
            for m in r.get("mismatch", []):
                k = "%s | %s" % (m.get("class"), m.get("what"))
                c[k] = c.get(k, 0) + 1
        else:
            c[r.get("status")] = c.get(r.get("status"), 0) + 1
    return c


# ------------------------------------------------------------------------------------------ C11
LEVELS["C11"] = "model_checking"


def check_C11(run, replay):
    only_tiny = os.environ.get("VERIF_ONLY_TINY") == "1"
    run.rule = ("(a) U-tiny: TLC enumerates raw trees of depth<=2 below the root, 0..2 children per node, weights {1,3}, chance "
                "infoset {none,c}, players {1,2}, infosets {x,y}, actions {a,b}, payoffs {0,2} (394758 trees; quick = a 1/16 "
                "hash slice chosen by the seed), checks VerdictMatchesContract / ErrorNamesViolatedRule / "
                "CompactPreservesSemantics / PrevLinksWellFounded of Build.tla against Contract.tla on each and replays each "
                "into from_root (verdict, error kind, renumbering-invariant compact game, evaluation and 3-iteration solves "
                "on accepted trees); (b) U-edit: seeded valid trees (depth<=5) x every single edit of the catalogue at every "
                "node, judged by the same TLA+ operators; distinct by canonical JSON; every tree exercises construction; edits that repeat an action name apart / at every node of the infoset; num_infosets() against the specified count; STRETCH: the same trees with one weight of every chance node x 2^70 (verdict unchanged: spec/proofs/StretchProof.tla, TLAPS)")
    run.assumptions = ["integer chance weights (so equal distributions normalise to identical f64 vectors)",
                       "R3s (one-outcome chance node sharing a label) and R8 (non-finite payoff) acceptances are listed known findings"]
    if replay:
        cases, rows = replay_pipeline(run, "build", replay_case(replay)["case"])
        absorb(run, rows, cases, mismatch_sig("build"))
        return
    of = 16 if run.tier == "quick" else 1
    run.exhaustive = (of == 1)
    # the argument behind the STRETCH replay, for every length, coordinate and constant (TLAPS)
    run.notes["tlaps_obligations_proved"] = tlaps("StretchProof.tla", "proportionality under stretching one coordinate")
    run.notes["tiny_classes"] = enumerate_stream(run, "MC_Build", "build", mismatch_sig("build"), env={"SLICE": run.seed % of, "OF": of},
                                                 timeout=6000, name="tiny")
    if only_tiny:
        return
    # (b) U-edit
    edit_path = run.path("edit.ndjson")
    nbase = 12 if run.tier == "quick" else 150
    harness(["gen", "edit", "--seed", run.seed, "--n", nbase, "--out", edit_path])
    res = tlc("MC_BuildCases", env={"CASES": edit_path}, timeout=6000)
    run.add_tlc(res)
    exp_path = run.path("edit.exp.ndjson")
    recs = res.out("OUT")
    write_ndjson(exp_path, [{"id": n, "exp": v} for n, (_, v) in enumerate(recs)])
    out_path = run.path("edit.res.ndjson")
    harness(["replay", "build", "--exp", exp_path, "--out", out_path, "--light", "0"])
    rows2 = read_ndjson(out_path)
    run.notes["edit_classes"] = class_counts(rows2)
    absorb(run, rows2, {n: v for n, (_, v) in enumerate(recs)}, mismatch_sig("build"))


def oracle_cases(run, module, gen_what, replay_what, n, name, gen_extra=None, timeout=3000, replay=None, env=None,
                 replay_extra=None):
    """harness gen <gen_what> -> TLC oracle (spec/<module>) -> harness replay <replay_what>; returns (cases, rows)"""
    cases_path = run.path(name + ".ndjson")
    if replay is not None:
        write_ndjson(cases_path, [replay])
    else:
        harness(["gen", gen_what, "--seed", run.seed, "--n", n, "--out", cases_path] + (gen_extra or []))
    cases = read_ndjson(cases_path)
    rows = oracle_pipeline(run, module, replay_what, cases_path, timeout=timeout, env=env, extra_replay=replay_extra)
    return {c["id"]: c for c in cases}, rows


# ------------------------------------------------------------------------------------------ C08
LEVELS["C08"] = "model_checking"


def check_C08(run, replay):
    run.rule = ("step: seeded (small perfect-recall game, method in {Full,Sampled,External}, parameter tuple from the presets and "
                "the lattice a,b in {-inf,-1,0,1/2,1,3/2,2,+inf}, g in {0,1/2,1,2,3}, w in {-inf,-1,0,1/2,1,+inf}, iteration "
                "index t in {1,2,3,7,50}, an arbitrary state on a grid of small rationals incl. all-negative / all-zero / tied "
                "regrets and zero-probability actions, draws as variates j/997); TLC computes ONE iteration of Cfr.tla exactly "
                "(symbolic atoms for irrational discounts); the harness injects the state, pins the draws, runs exactly "
                "iteration t in the production loop with 1 and 2 threads and compares every accumulator, next strategy, "
                "bounds and the returned normalised average; half of the scale-invariant cases are run with payoffs and regrets "
                "multiplied by 2^-70 or 2^60 (positive homogeneity; exact in binary floating point); "
                "two-step: the same from injected states with exact parameters over TWO consecutive iterations (MC_CfrStep2: state "
                "carried between iterations besides the three accumulators; one case in four from the FORGETTING family: alpha = -inf at t in {2,3} under a sampled method, 70 % on a game of which a sampled pass reaches one branch only - an unvisited infoset must still be re-matched); non-trivial = every case; distinct by canonical JSON; the exact trajectory cases include a game whose two-thread passes cut a real frontier; chance nodes reach the library unlabelled")
    run.assumptions = ["irrational discount factors t^e/(t^e+1), (t/(t+1))^g and the finite-weight softmax are evaluated by "
                       "the harness with f64 powf/exp from the documented formulas (DESIGN 3.1)",
                       "comparison tolerance 1e-10 relative"]
    if replay:
        d = replay_case(replay)
        if "state" in d["case"]:
            cases, rows = oracle_cases(run, "MC_CfrStep", "step", "step", 0, "step", replay=d["case"])
        else:
            cases, rows = oracle_cases(run, "MC_CfrRun", "run", "run", 0, "run", replay=d["case"])
        absorb(run, rows, cases, mismatch_sig("cfr"))
        return
    n = 1500 if run.tier == "quick" else 20000
    cases, rows = oracle_cases(run, "MC_CfrStep", "step", "step", n, "step")
    kinds = {}
    for r in rows:
        for k in r.get("kinds", []):
            kinds[k] = kinds.get(k, 0) + 1
    run.notes["regret_matching_branches_exercised"] = kinds
    run.notes["step_classes"] = class_counts(rows)
    absorb(run, rows, cases, mismatch_sig("cfr"))
    # two consecutive iterations from an injected state (hidden state carried between iterations)
    n = 500 if run.tier == "quick" else 6000
    cases, rows = oracle_cases(run, "MC_CfrStep2", "step2", "step2", n, "step2")
    run.notes["two_step_classes"] = class_counts(rows)
    absorb(run, rows, cases, mismatch_sig("cfr"))
    # glue: exact trajectories T = 0..3 from the documented initial state through the public api
    n = 600 if run.tier == "quick" else 8000
    cases, rows = oracle_cases(run, "MC_CfrRun", "run", "run", n, "run")
    run.notes["run_classes"] = class_counts(rows)
    absorb(run, rows, cases, mismatch_sig("cfr-run"))


def monitor(run, mode, n, name="monitor", extra=None):
    """impl -> spec: record real solves, validate against Trace_Solve.tla"""
    trace = run.path(name + ".ndjson")
    args = ["record", "solve", "--mode", mode, "--seed", run.seed, "--n", n, "--out", trace]
    if run.tier == "thorough":
        args += ["--thorough", "1"]
    if extra:
        args += extra
    out = harness(args, timeout=6000)
    info = json.loads(out.strip().splitlines()[-1])
    failed = [json.loads(l) for l in open(trace) if '"e":"failed"' in l]
    for f in failed[:5]:
        run.violation("solve:failed", {"event": f, "context": {"mode": mode, "seed": run.seed, "n": n}})
    if failed:
        # drop the failed events so that the rest of the trace is still validated
        lines = [l for l in open(trace) if '"e":"failed"' not in l]
        open(trace, "w").writelines(lines)
    ok = validate_trace(run, "Trace_Solve", trace,
                        lambda rec: "solve:%s:%s:%s" % (mode, (rec or {}).get("method", "?"), (rec or {}).get("preset", "?")),
                        {"mode": mode, "seed": run.seed, "n": n}, timeout=6000)
    run.traces += info["runs"]
    run.evaluations += info["runs"]
    with open(trace) as f:
        for line in f:
            if '"e":"run"' in line:
                run.distinct.add(line)
    run.notes[name] = {k: v for k, v in info.items() if k != "samples"}
    for s in info["samples"]:
        run.sample(s)
    with open(trace) as f:
        for line in f:
            if '"e":"run"' in line:
                run.sample(json.loads(line), limit=4)
                break
    return ok


# ------------------------------------------------------------------------------------------ C02
LEVELS["C02"] = "model_checking"


def check_C02(run, replay):
    run.rule = ("(a) exact: seeded small games, method Full, vanilla, budgets 1..3: TLC runs Cfr.tla exactly, checks "
                "BoundDominates (total bound >= true total regret by brute-force best response) on each and the returned "
                "strategies, bounds and get_info() of solve(Full,T,0,k in {1,2},vanilla) are compared with the exact values; "
                "(b) monitor: real solves on U-zoo (kuhn, chains to depth 8, infoset shared by up to 16 nodes, 1:1000 chance, "
                "dominated actions, flat payoffs, a player without decisions) and seeded games x budgets {1,4,25,100,400,2500"
                "(,10000)} x threads {1,2,4(,3,8,16)} x thresholds just below / just above / three times each bound seen; "
                "each run is an event validated by Trace_Solve.tla (bound >= regret in directed micro-units, non-negative, "
                "total = max, early stop => regret < threshold); distinct = distinct run events; large card games (67 / 1025 infosets of one player) with 2 and 3 threads")
    run.assumptions = ["beyond T=3 the true regret is get_info() (validated exactly by C01 on the same kinds of games)",
                       "micro-unit comparison is sound in the direction used (a true inequality is never reported false)"]
    if replay:
        d = replay_case(replay)
        if "case" in d:
            cases, rows = oracle_cases(run, "MC_CfrRun", "run", "run", 0, "exact", replay=d["case"])
            absorb(run, rows, cases, mismatch_sig("cfr-run"))
            return
    n = 300 if run.tier == "quick" else 3000
    cases, rows = oracle_cases(run, "MC_CfrRun", "run", "run", n, "exact", gen_extra=["--vanilla-full", "1"])
    run.notes["exact_classes"] = class_counts(rows)
    absorb(run, rows, cases, mismatch_sig("cfr-run"))
    monitor(run, "c02", 12 if run.tier == "quick" else 150)


# ------------------------------------------------------------------------------------------ C03
LEVELS["C03"] = "exploration"


def check_C03(run, replay):
    run.rule = ("(a) exact: as C02 (a), TLC checks RateHolds (b^2 T <= 4 D^2 N^2 A per player) on exact bounds for T<=3; "
                "(b) monitor: solve(Full, T, 0, k, preset) for the five presets x T in {1,4,25,100,400,2500(,10000)} x "
                "k in {1(,4)} on U-zoo (adversarial families at full size) and seeded games; Trace_Solve.tla recomputes D, N, A "
                "from the raw tree and checks the vanilla per-player envelope 2DN sqrt(A)/sqrt(T) on the bounds and the "
                "preset envelope 6DN(sqrt(A)+1/sqrt(T))/sqrt(T) on the true regret; non-trivial = every run; distinct = "
                "distinct run events; large card games (67 / 1025 infosets of one player) with 2 and 3 threads")
    run.assumptions = ["true regret = get_info() (C01)", "finite envelopes at the listed budgets stand in for 'tends to zero'"]
    n = 300 if run.tier == "quick" else 3000
    cases, rows = oracle_cases(run, "MC_CfrRun", "run", "run", n, "exact", gen_extra=["--vanilla-full", "1"])
    absorb(run, rows, cases, mismatch_sig("cfr-run"))
    monitor(run, "c03", 15 if run.tier == "quick" else 300)
    run.states = run.states  # model states are reported inside coverage notes for this exploration-level check
    run.notes["tlc_states"] = run.states


# ------------------------------------------------------------------------------------------ C04
LEVELS["C04"] = "exploration"


def check_C04(run, replay):
    run.rule = ("(a) lemma: TLC checks Unbiased (MC_Unbiased.tla) exactly on seeded (game, current profile) cases: the "
                "expectation over all chance outcomes (and opponent actions) of the sampled regret increments equals the "
                "unsampled counterfactual increments, for chance sampling and for external sampling of either player; "
                "(b) monitor: solve({Sampled,External}, T in {100,2500}, k in {1,2(,8)}, presets) under seeded replayable "
                "draws on U-zoo and seeded games; Trace_Solve.tla checks regret <= D N sqrt(A)/sqrt(T) per run and the corpus "
                "statistics (most games below 1% of the payoff range at T=2500 and at most half of their T=100 value); "
                "distinct = distinct run events; chance nodes declared without an infoset reach the library unlabelled; the coins game (two independent fair coins on one path)")
    run.assumptions = ["statistical property: seeds and corpus are fixed; the unchanged code passes the envelope with a "
                       "measured margin of about 20x (DESIGN 4 C04)", "true regret = get_info() (C01)",
                       "games in which a chance infoset repeats on one path are excluded from the lemma and the corpus "
                       "(the draws there are perfectly correlated by design of the sampler; see known findings)"]
    n = 300 if run.tier == "quick" else 3000
    cases_path = run.path("lemma.ndjson")
    harness(["gen", "step", "--seed", run.seed, "--n", n, "--out", cases_path])
    res = tlc("MC_Unbiased", env={"CASES": cases_path}, timeout=3000)
    run.add_tlc(res)
    st = {}
    for _, v in res.out("OUT"):
        st[v["status"]] = st.get(v["status"], 0) + 1
    run.notes["lemma_cases"] = st
    run.evaluations += len(res.out("OUT"))
    for k, (_, v) in enumerate(res.out("OUT")):
        if v["status"] == "ok":
            run.distinct.add("lemma-%d" % k)
    monitor(run, "c04", 15 if run.tier == "quick" else 200)
    run.notes["tlc_states"] = run.states


# ------------------------------------------------------------------------------------------ C09
LEVELS["C09"] = "model_checking"


def check_C09(run, replay):
    run.rule = ("model: Stop.tla checked by TLC for every bound sequence over 0..3 of length <=4 x thresholds 0..4 and NaN "
                "(StopIsPrefix, NeverPastFirstHit, BudgetRespected, ThresholdsNeverShorten, termination under fairness) and "
                "proved for every budget / bound sequence / threshold by TLAPS (spec/proofs/StopProof.tla: FirstHitOrBudget); "
                "traces: for U-zoo and seeded games, methods Full / Sampled / External under pinned draws, the five presets, "
                "budgets {2,5,20(,1,100)}: the unthresholded prefixes t=1..N (bound tokens, strategy digests), then "
                "solve(m,N,r,k) for r just below / at / just above every total bound (next_down, exact, next_up; also 1e-6 apart "
                "for k>1, where a run is judged on its own per-iteration bounds), 0, -1, NaN, +-inf, k in {1,4(,2)}; budget "
                "u64::MAX against thresholds the series crosses; every run validated against Trace_Stop.tla; non-trivial = "
                "every thresholded run; distinct = distinct run events")
    run.assumptions = ["one thread is bitwise deterministic under pinned draws (prefix digests compared bitwise)",
                       "with several threads only the stop rule on the run's own bounds is judged (no prefix comparison)"]
    res = tlc("MC_Stop", timeout=600)
    run.add_tlc(res)
    # unbounded: the TLAPS proof of the same rule for every budget, bound sequence and threshold
    run.notes["tlaps_obligations_proved"] = tlaps("StopProof.tla", "the stop rule")
    trace = run.path("stop.ndjson")
    n = 10 if run.tier == "quick" else 150
    args = ["record", "stop", "--seed", run.seed, "--n", n, "--out", trace]
    if run.tier == "thorough":
        args += ["--thorough", "1"]
    info = json.loads(harness(args, timeout=6000).strip().splitlines()[-1])
    for f in info["failed"][:5]:
        run.violation("stop:failed", {"event": f, "context": {"seed": run.seed, "n": n}})
    validate_trace(run, "Trace_Stop", trace, "stop:run", {"seed": run.seed, "n": n}, timeout=6000)
    run.traces += info["runs"]
    run.evaluations += info["runs"]
    with open(trace) as f:
        for line in f:
            if '"e":"run"' in line:
                run.distinct.add(line)
                run.sample(json.loads(line), limit=2)
    run.notes["stopped_early"] = info["stopped_early"]


# ------------------------------------------------------------------------------------------ C05
LEVELS["C05"] = "fault_enumeration"


def check_C05(run, replay):
    run.rule = ("TLC enumerates the configuration lattice of MC_Lattice.tla (all RegretParams::new tuples with exponents / "
                "weight in {-inf,-1000,-1,0,1/2,1,2,1000,+inf}, the presets and None, budgets {0,1,2,3,40}, thresholds "
                "{-1,0,1e-300,+inf,NaN}, threads {0,1,2,3,16,usize::MAX/3+1,usize::MAX}, three methods, sixteen games incl. a chance infoset met twice on one path, an opponent infoset shared by all parallel tasks, all "
                "payoffs equal, a player without decisions, no decision at all (chance only / forced moves only), payoffs of "
                "magnitude 1e6) by a deterministic stride slice and "
                "states the specified verdict (ThreadDecision); every point runs in a child process under a 30 s watchdog (run again with 120 s before it counts as a hang): "
                "normal return or the documented error, every infoset a distribution, bounds non-negative numbers that are "
                "infinite iff the budget is 0; plus the dynamic-range family (strategy exponents 50..1000 x budgets 1..1500 "
                "x regret exponents down to -1000 x fallback weights on games with an infoset reached in the first "
                "iteration only: the accumulators pass through the subnormal range) and the contention family (External, 2 / 3 / "
                "16 threads, on the game whose opponent infoset is shared by all parallel tasks), the unlimited family (budget u64::MAX with the threshold +inf: returns after one iteration) and the constructor family "
                "(RegretParams::new over {-1,1,NaN,+-inf}^4 panics exactly as documented); distinct by lattice index; "
                "every point is non-trivial")
    run.assumptions = ["|payoff| <= 1e6", "hang = no return within 30 s and, run again, within 120 s",
                       "usize::MAX/3 itself (65535 real threads in rayon) is not exercised: resource hazard for the sandbox"]
    if replay:
        cases, rows = replay_pipeline(run, "lattice", replay_case(replay)["case"])
        absorb(run, rows, cases, mismatch_sig("solve"))
        return
    stride = 34981 if run.tier == "quick" else 1399
    res = tlc("MC_Lattice", env={"SLICE": run.seed % stride, "OF": stride, "NUMGAMES": 16, "FAMILY": "lattice"}, timeout=3000)
    run.add_tlc(res)
    recs = res.out("OUT")
    # the dynamic-range family: exponents x budgets whose discount products sweep the subnormal range
    rstride = 37 if run.tier == "quick" else 1
    res2 = tlc("MC_Lattice", env={"SLICE": run.seed % rstride, "OF": rstride, "NUMGAMES": 16, "FAMILY": "range"}, timeout=3000)
    run.add_tlc(res2)
    recs = recs + [(i + 100000000, v) for (i, v) in res2.out("OUT")]
    res3 = tlc("MC_Lattice", env={"SLICE": 0, "OF": 1, "NUMGAMES": 16, "FAMILY": "contention"}, timeout=3000)
    run.add_tlc(res3)
    recs = recs + [(i + 200000000, v) for (i, v) in res3.out("OUT")]
    kstride = 5 if run.tier == "quick" else 1
    res4 = tlc("MC_Lattice", env={"SLICE": run.seed % kstride, "OF": kstride, "NUMGAMES": 16, "FAMILY": "ctor"}, timeout=3000)
    run.add_tlc(res4)
    recs = recs + [(i + 300000000, v) for (i, v) in res4.out("OUT")]
    ustride = 9 if run.tier == "quick" else 1
    res5 = tlc("MC_Lattice", env={"SLICE": run.seed % ustride, "OF": ustride, "NUMGAMES": 16, "FAMILY": "unlimited"}, timeout=3000)
    run.add_tlc(res5)
    recs = recs + [(i + 400000000, v) for (i, v) in res5.out("OUT")]
    run.notes["points"] = {"lattice": len(res.out("OUT")), "range": len(res2.out("OUT")), "contention": len(res3.out("OUT")),
                           "constructor": len(res4.out("OUT")), "unlimited": len(res5.out("OUT"))}
    exp_path = run.path("lattice.exp.ndjson")
    write_ndjson(exp_path, [{"id": i, "exp": dict(v, seed=run.seed)} for (i, v) in recs])
    out_path = run.path("lattice.res.ndjson")
    harness(["replay", "lattice", "--exp", exp_path, "--out", out_path], timeout=20000)
    rows = read_ndjson(out_path)
    run.notes["classes"] = class_counts(rows)
    absorb(run, rows, {i: dict(v, seed=run.seed) for (i, v) in recs}, mismatch_sig("solve"))


def par_check(run, method_filter, n):
    """shared by C06 (Full) and C07 (Sampled, External): model check Par.tla, record real passes, validate, compare"""
    from vlib import tlc_trace
    total = {"runs": 0, "nontrivial_cuts": 0, "passes": 0}
    for meth in method_filter:
        trace = run.path("par_%s.ndjson" % meth)
        cmp_path = run.path("par_%s.cmp.ndjson" % meth)
        args = ["record", "par", "--seed", run.seed, "--n", n, "--out", trace, "--cmp", cmp_path, "--method", meth]
        if run.tier == "thorough":
            args += ["--thorough", "1"]
        info = json.loads(harness(args, timeout=20000).strip().splitlines()[-1])
        for k in total:
            total[k] += info[k]
        # R: k threads versus one thread (the property observed directly)
        for r in read_ndjson(cmp_path):
            key = canon({k: r.get(k) for k in ("game", "method", "k", "T", "r")})
            if r["status"] == "ok":
                run.evaluated(key, r.get("nontrivial", False))
            else:
                run.evaluated(key, True)
                m = (r.get("mismatch") or [{}])[0]
                run.violation("par:%s" % m.get("class", "?"), {"case": r, "context": {"seed": run.seed, "n": n}})
        # V: every pass is a behaviour of Par.tla
        validate_trace(run, "Trace_Par", trace,
                       lambda rec: "par:pass:%s" % meth, {"seed": run.seed, "n": n, "method": meth}, timeout=20000)
        run.traces += info["runs"]
        with open(trace) as f:
            for line in f:
                if '"e":"pass"' in line and len(run.samples) < 2 and '"queue":[]' not in line:
                    run.sample(json.loads(line))
    run.notes["recorded"] = total


# ------------------------------------------------------------------------------------------ C06
LEVELS["C06"] = "model_checking"


def check_C06(run, replay):
    run.rule = ("model: MC_Par.tla - TLC builds every ordered tree with 2..4 children per internal node up to 11 nodes x "
                "targets {3,6,9} x 3 consecutive passes with the workspace persisting as in the code and checks ExactlyOnce, "
                "NoStaleTask, CacheIsCurrent, TasksDisjoint; ParWorkers.tla - every interleaving of 2-3 workers at the grain "
                "of the atomic adds and mutex sections on four instances with infosets spanning tasks: ParEqualsSeq, "
                "NoLostStrategyUpdate, NoDeadlock, termination under fairness; traces: solve(Full, T=4 (1,2,3,4,10 thorough), k in "
                "{2,3,4,8,16(,5,6,12)}, presets) on shape games, seeded games and U-zoo (kuhn, infoset shared by 16 nodes, "
                "chain of depth 8) with generic payoffs: every pass (frontier, tasks, nodes entered, cache hits) validated "
                "against Trace_Par.tla and the result compared with one thread at 1e-9; thresholded runs (budget 12 / 30, thresholds "
                "midway between consecutive distinct per-player bounds) stop after the same iteration as one thread; non-trivial = the frontier cut "
                "produced tasks below the root; distinct by (game, method, k, T); a parameter set with average-strategy exponent 1000; large games (chain of depth 130, 67 / 1025 card games): result of 2, 3, 4 threads against one")
    run.assumptions = ["schedules of the real thread pool are sampled (repetitions, injected yields in thorough), the "
                       "exhaustive argument over shapes lives in the model", "generic payoffs avoid exact ties (DESIGN 3.4)"]
    res = tlc("MC_Par", cfg="MC_Par_Full_TRUE" if run.tier == "quick" else "MC_Par_Full_TRUE_thorough", timeout=6000, xmx="16g")
    run.add_tlc(res)
    run.notes["shape_model"] = "all ordered trees up to %d nodes" % (11 if run.tier == "quick" else 15)
    # the shared-memory grain: every interleaving of the workers' atomic adds / mutex sections (ParWorkers.tla)
    res = tlc("ParWorkers", cfg="MC_ParWorkers", timeout=3000, workers=4)
    run.add_tlc(res)
    run.notes["interleaving_model_states"] = res.distinct
    par_check(run, ["Full"], 24 if run.tier == "quick" else 200)


# ------------------------------------------------------------------------------------------ C07
LEVELS["C07"] = "model_checking"


def check_C07(run, replay):
    run.rule = ("model: MC_Par.tla instantiated for External - every tree up to 9 nodes x every owner assignment x targets "
                "{3,6,9} x 4 passes (updating player alternates), draws a pure function of node and pass: ExactlyOnce on the "
                "sampled tree, NoStaleTask, TasksDisjoint, NoLockConflict; traces: solve({Sampled,External}, ...) as C06 with "
                "the draws pinned to a pure function of (site, infoset, pass): every pass validated against Trace_Par.tla "
                "(at most one draw per infoset and pass and only at allowed sites, frontier, exactly-once visits of the "
                "sampled tree, all lock attempts succeed) and compared with one thread at 1e-9; plus thresholded runs (budget 12 / 30, "
                "thresholds midway between consecutive distinct per-player bounds of the one-thread run): same number of "
                "iterations, strategies and bounds as one thread; DeclOK: two chance nodes share an infoset iff declared with the same label (the library receives unlabelled chance nodes unlabelled); large games as in C06")
    run.assumptions = ["draws pinned through the hook (a pure function of site, infoset and pass)", "as C06"]
    res = tlc("MC_Par", cfg="MC_Par_External_TRUE" if run.tier == "quick" else "MC_Par_External_TRUE_thorough", timeout=6000, xmx="16g")
    run.add_tlc(res)
    run.notes["shape_model"] = "all ordered trees up to %d nodes x owner assignments" % (9 if run.tier == "quick" else 13)
    par_check(run, ["Sampled", "External"], 24 if run.tier == "quick" else 200)


# ------------------------------------------------------------------------------------------ C12
LEVELS["C12"] = "model_checking"


def check_C12(run, replay):
    run.rule = ("cases = (seeded perfect-recall game with degenerate nodes and shared chance infosets, integer profile, one "
                "transformation of Transform.tla: chance weights of up to 3 nodes x c, single-outcome chance node / "
                "single-action decision node inserted above up to 3 nodes, all degenerate nodes removed, injective renaming "
                "of infosets / actions / chance infosets that reverses the action order, payoffs x c, payoffs + c, players "
                "exchanged with payoffs negated; a parameter tuple; budget T<=2); TLC builds the alternative presentation, "
                "evaluates both exactly and runs Cfr.tla on both, and checks EvalRelated / SolveRelated on the exact values; "
                "the harness feeds both presentations to from_root / get_info / solve(Full) and compares with the exact "
                "values and with each other under the stated relation for budgets {1,3,10,100(,2,1000)} x presets (integer "
                "payoffs and 1e-12 where both sides perform the same operations, generic payoffs and 1e-9 for shift and "
                "scale by 3, 7); distinct by canonical JSON; every case is non-trivial; rescale of ONE node of a shared chance infoset (also by 3/10, 7/10 on power-of-two weights); the relations also between two-thread solves")
    run.assumptions = ["finite non-zero softmax weights are excluded for payoff scaling (strategies cannot be invariant there)",
                       "leaf order is preserved by every transformation (used to perturb payoffs consistently)"]
    if replay:
        case = replay_case(replay)["case"]
        cases, rows = oracle_cases(run, "MC_Transform", "xform", "xform", 0, "xform", replay=case)
    else:
        n = 400 if run.tier == "quick" else 6000
        extra = ["--thorough", "1"] if run.tier == "thorough" else None
        cases, rows = oracle_cases(run, "MC_Transform", "xform", "xform", n, "xform", replay_extra=extra, timeout=6000)
    kinds = {}
    exact = 0
    for r in rows:
        kinds[r.get("kind", "?")] = kinds.get(r.get("kind", "?"), 0) + 1
        exact += 1 if r.get("exact") else 0
        run.count("solver_comparisons", r.get("runs", 0))
    run.notes["cases_per_transformation"] = kinds
    run.notes["cases_with_exact_solver_trajectory"] = exact
    run.notes["classes"] = class_counts(rows)
    absorb(run, rows, cases, mismatch_sig("xform"))


# ------------------------------------------------------------------------------------------ C10
LEVELS["C10"] = "model_checking"


def check_C10(run, replay):
    run.rule = ("(a) sampler table: TLC enumerates every weight vector of length 1..4 over 0..MAXW and every variate j/(2T) "
                "(all interval endpoints and midpoints), checks SampleInSet / InteriorUnique / NeverZero / Proportional on "
                "Sampler.tla and each (weights, variate) is replayed into the production Multinomial sampler through the "
                "hook (midpoints judged, exact endpoints must return an adjacent index); (b) traces: solves with LIVE "
                "randomness and the hooks in observer mode - every method x {1,3(,2,8)} threads x zoo / shape / seeded "
                "games with shared chance infosets - validated against Trace_Sample.tla: draw sites allowed by the method, "
                "at most one draw per infoset and pass, every sampled node entered has a draw of this pass, the nodes entered "
                "are exactly the tree that follows the drawn outcomes, chance draws made from the declared normalised "
                "weights, player draws from the current strategy where it is known exactly, reset counters; (c) frequencies: "
                "flat-payoff games with injected skewed strategies, 1000 draws per distribution tallied by TLC, chi-square "
                "below the 1-1e-9 quantile; distinct = distinct table entries + distinct pass events; DeclOK (chance nodes declared without an infoset are infosets of their own)")
    run.assumptions = ["the one genuinely random test: false-alarm probability below 1e-9 per tested distribution (at most 12 per run)",
                       "the alias-table sampler of rand_distr is observed statistically only",
                       "at exact interval endpoints either adjacent index is admissible; endpoints of non-dyadic vectors are not judged"]
    if replay:
        d = replay_case(replay)
        if "case" in d:
            cases, rows = replay_pipeline(run, "sampler", d["case"])
            absorb(run, rows, cases, mismatch_sig("sampler"))
            return
    maxw = 3 if run.tier == "quick" else 4
    cases, rows = enumerate_pipeline(run, "MC_Sampler", "sampler", env={"MAXW": maxw}, timeout=3000, name="table")
    run.exhaustive = True
    run.notes["table"] = class_counts(rows)
    absorb(run, rows, cases, mismatch_sig("sampler"))
    trace = run.path("sample.ndjson")
    n = 9 if run.tier == "quick" else 60
    args = ["record", "sample", "--seed", run.seed, "--n", n, "--out", trace]
    if run.tier == "thorough":
        args += ["--thorough", "1"]
    info = json.loads(harness(args, timeout=6000).strip().splitlines()[-1])
    for f in info["failed"][:5]:
        run.violation("sample:failed", {"event": f, "context": {"seed": run.seed, "n": n}})
    from vlib import tlc_trace
    ok, line, rec, res = tlc_trace("Trace_Sample", trace, timeout=6000)
    run.add_tlc(res)
    if not ok:
        lines = open(trace).read().splitlines()
        kind = (rec or {}).get("e", "?")
        run.violation("sample:%s" % kind, {"trace_spec": "Trace_Sample", "first_unexplained_line": line, "record": rec,
                                           "preceding_lines": lines[max(0, (line or 1) - 4):(line or 1) - 1][-3:],
                                           "context": {"seed": run.seed, "n": n}})
    run.traces += info["runs"]
    run.evaluations += info["passes"]
    tested = []
    for (t, i, v) in res.records:
        if t == "FREQ":
            tested += v["tested"]
    run.notes["frequency_tests"] = tested
    run.notes["recorded"] = {k: v for k, v in info.items() if k != "failed"}
    with open(trace) as f:
        for ln in f:
            if '"e":"pass"' in ln:
                run.distinct.add(ln)
                if '"draws":[]' not in ln:
                    run.sample(json.loads(ln), limit=4)


# ------------------------------------------------------------------------------------------ C15 C16 C17
def cli_check(run, mode, n, timeout=6000, tag="cli"):
    """record runs of the built binary -> TLC (spec/MC_Cli.tla) -> judge; returns (full cases, result rows)"""
    exe = build_cli()
    tlc_path = run.path(tag + ".tlc.ndjson")
    full_path = run.path(tag + ".full.ndjson")
    args = ["record", "cli", "--mode", mode, "--seed", run.seed, "--n", n, "--exe", exe, "--dir", run.path("files"),
            "--out-tlc", tlc_path, "--out-full", full_path]
    if run.tier == "thorough":
        args += ["--thorough", "1"]
    info = json.loads(harness(args, timeout=timeout).strip().splitlines()[-1])
    res = tlc("MC_Cli", env={"CASES": tlc_path}, timeout=timeout)
    run.add_tlc(res)
    exp_path = run.path(tag + ".exp.ndjson")
    write_ndjson(exp_path, [{"id": i, "exp": v} for (i, v) in res.out("OUT")])
    out_path = run.path(tag + ".res.ndjson")
    harness(["replay", "cli", "--full", full_path, "--exp", exp_path, "--out", out_path], timeout=timeout)
    run.notes["recorded" if tag == "cli" else "recorded_" + tag] = info
    return {c["id"]: c for c in read_ndjson(full_path)}, read_ndjson(out_path)


def cli_absorb(run, cases, rows, sig_prefix):
    slim = {}
    for i, c in cases.items():
        # distinct = distinct (game, rendering, options, route); file names and outputs are not part of the case
        slim[i] = {k: c.get(k) for k in ("game", "fmt", "opts", "route", "fault", "class", "text") if k in c}
    absorb(run, rows, slim, mismatch_sig(sig_prefix))
    run.notes["classes"] = class_counts(rows)


LEVELS["C15"] = "model_checking"


def check_C15(run, replay):
    run.rule = ("runs of the built binary on rendered documents: zoo games and seeded games x {Gambit with constant sums "
                "0, 2, -6, 1/2, 10, -1, payoffs partly on interior nodes, outcomes shared and referenced by number only, "
                "unnamed infosets, names given at some nodes only, probabilities spelled reduced / unreduced / decimal, "
                "shuffled action lists; JSON} x methods x presets x budgets {1,2,3,1000} x threads {1,2,0} x clip {0,0.05,"
                "0.25,0.5,0.6} x file / stdin / -o; for every run TLC (MC_Cli.tla, Efg.tla) computes the meaning of the "
                "document, checks NamesOK / DistOK of the printed strategies and evaluates the PRINTED strategies exactly on "
                "the game as written (Game.tla) whenever they are small rationals; the printed utilities, regrets and their "
                "relations are compared with these values and with the library's evaluation on the independently built "
                "game; for the unsampled method and exact budgets also with the strategies of Cfr.tla; distinct by "
                "canonical JSON of (game, argv, document text); action names with quotes and backslashes; every other -o run finds an older, longer result at the destination; every option spelled -k v / --name v / --name=v or left out when its value is the documented default; '-' for standard input / output")
    run.assumptions = ["-t 0 with -r 0 (no limit at all) is excluded: it does not terminate by design",
                       "printed strategies with large denominators are evaluated by the library only (instrument validated by C01)"]
    cases, rows = cli_check(run, "c15", 30 if run.tier == "quick" else 100)
    cli_absorb(run, cases, rows, "cli")
    run.notes["exactly_evaluated_by_tlc"] = sum(1 for r in rows if r.get("exact"))
    run.notes["solution_predicted_by_tlc"] = sum(1 for r in rows if r.get("solution_exact"))


LEVELS["C16"] = "model_checking"


def check_C16(run, replay):
    run.rule = ("unsampled method: for each game (integer payoffs with one thread, tie-free dyadic payoffs with 2 / 4 / all "
                "threads) x preset x budget {2,3,50(,1)} x threshold {0, 0.5} x clip {0, at / 1% below / 1% above a printed "
                "probability, 0.6}: the same game as Gambit and as JSON through {file .efg, file .txt auto-detected, stdin "
                "with and without --input-format, file .json, file .dat, -o file}; every printed solution must equal the "
                "library's solve + truncate for the same options (1e-12 one thread, 1e-9 otherwise), all routes of a group "
                "must agree, and for budgets <= 3 with exact presets must equal the strategies TLC computes with Cfr.tla and "
                "the clip rule of Cli.tla (printed iff strictly lower regret); plus everything C15 checks; clip decisions "
                "whose exact margin is zero are not judged")
    run.assumptions = ["sampled methods are covered by C15's decoding-independent checks only",
                       "the reference solve orders actions as the tool does (by name) so that both perform the same operations"]
    cases, rows = cli_check(run, "c16", 6 if run.tier == "quick" else 30)
    cli_absorb(run, cases, rows, "cli")
    # the JSON language itself: documents as written (member order, names in tricky byte order, what the documentation
    # leaves open) -> meaning by JsonDsl.tla -> the printed solution must be that of the meant game
    jcases, jrows = cli_check(run, "cjson-meaning", 6 if run.tier == "quick" else 40, tag="json")
    cli_absorb(run, jcases, jrows, "clijson")
    run.notes["json_documents_as_written"] = len(jrows)
    rows = rows + jrows
    run.notes["solution_predicted_by_tlc"] = sum(1 for r in rows if r.get("solution_exact"))
    run.notes["clip_decisions"] = {"clipped": sum(1 for r in rows if r.get("clipped") is True),
                                   "kept": sum(1 for r in rows if r.get("clipped") is False)}


LEVELS["C17"] = "fault_enumeration"


def check_C17(run, replay):
    run.rule = ("fault enumeration: every game of the corpus rendered as Gambit and JSON x every fault of the catalogue "
                "(probability zero / negative / not summing to one, three players, one player, a payoff off constant-sum "
                "by 0.05% / 0.15% / 0.5% of player one's range, player one's payoff flat with varying sums, unnamed infoset "
                "whose number is another's name, two infosets of one player given one name, one name used by both players, "
                "a node moved into another infoset (perfect recall), duplicate action, undefined / conflicting / null "
                "outcome, bad player number, truncated text, payoff literal 1e999, unbalanced braces, garbage; JSON: "
                "truncated, renamed / missing fields, wrong types, probability zero / negative, no actions, two variants; and the "
                "JSON language as specified by JsonDsl.tla: 34 faults (no / two / unknown variants, node of another JSON type, "
                "each mandatory member missing / twice / of the wrong type, malformed earlier occurrence of a repeated "
                "name, contract faults) applied to documents as written, the specification deciding the category) "
                "x input routes {stdin, .efg, .json, .txt} x --input-format {auto, gambit, json}; TLC (Cli.tla Categories, "
                "Efg.tla, Contract.tla) states the admissible diagnostic categories of each (document, parser); the binary "
                "must exit non-zero with a diagnostic of one of them, empty stdout and no output file - or solve the input "
                "when the set is empty; distinct by canonical JSON")
    run.assumptions = ["corruptions at the level of the abstract document plus a few text-level ones; no byte-level fuzzing",
                       "a document within the 0.1% tolerance must be accepted, one beyond it rejected (README)"]
    cases, rows = cli_check(run, "c17", 8 if run.tier == "quick" else 40)
    cli_absorb(run, cases, rows, "cli17")
    # the JSON language (JsonDsl.tla): the model on its own universe, then one fault of the catalogue per document as
    # written; the specification - not the harness - says whether a document is in the language
    res = tlc("MC_JsonDsl", env={"MAXENT": 2 if run.tier == "quick" else 3}, timeout=3000, workers=8)
    run.add_tlc(res)
    run.notes["json_language_model_documents"] = res.distinct
    jcases, jrows = cli_check(run, "cjson-faults", 6 if run.tier == "quick" else 40, tag="json")
    cli_absorb(run, jcases, jrows, "clijson17")
    for r in jrows:
        r["fault"] = "json:" + str((jcases.get(r["id"]) or {}).get("fault"))
    rows = rows + jrows
    faults = {}
    for r in rows:
        f = str(r.get("fault"))
        faults[f] = faults.get(f, 0) + 1
    run.notes["runs_per_fault"] = faults
