"""`./check selftest [--baseline] [ids or mutant names...]`: sensitivity of the machinery.

For every patch mutants/<property>-<name>.diff and every kept sub-agent change seeded/<name>/patch.diff
(meta.json names the property): apply it to /repo's working tree, run the quick check of the property it
targets, expect exit status 1 with a VIOLATION line, and restore the tree (git checkout).  Not a MANIFEST
check: it edits /repo temporarily and is only run by hand while developing; results are recorded in
mutants/RESULTS.json and cited in DESIGN.md.
"""
import glob
import json
import os
import subprocess
import sys
import time

ROOT = os.path.dirname(os.path.dirname(os.path.abspath(__file__)))
REPO = "/repo"


def git(*args):
    return subprocess.run(["git", "-C", REPO] + list(args), stdout=subprocess.PIPE, stderr=subprocess.STDOUT, text=True)


def clean():
    return git("status", "--porcelain", "--untracked-files=no").stdout.strip() == ""


def collect():
    out = []
    for p in sorted(glob.glob(os.path.join(ROOT, "mutants", "*.diff"))):
        name = os.path.basename(p)[:-5]
        out.append((name, name.split("-")[0].split("+"), p))
    for d in sorted(glob.glob(os.path.join(ROOT, "seeded", "*"))):
        meta = os.path.join(d, "meta.json")
        patch = os.path.join(d, "patch.diff")
        if os.path.exists(meta) and os.path.exists(patch):
            m = json.load(open(meta))
            if m.get("skip_in_selftest"):
                # kept for the record with the reason in meta.json "verdict" (DESIGN 10.4): not expected to be detected
                continue
            props = m.get("detected_by") or m.get("property")
            if isinstance(props, str):
                props = [props]
            out.append(("seeded/" + os.path.basename(d), props, patch))
    return out


SPEC_VARIANTS = [
    # (module, cfg, what the deliberate design error is, what TLC must report)
    ("MC_Par", "MC_Par_Full_FALSE", "workspace not cleared between passes (pinned code)", None),
    ("MC_Par", "MC_Par_External_FALSE", "work list not cleared between passes (pinned code)", None),
    ("MC_Build", "MC_Build_NoAction", "recall rule compares the previous infoset only", None),
    ("MC_Build", "MC_Build_NoClash", "single / multi action tables never compared", None),
    ("MC_NamedView", "MC_NamedView_Cells", "len() counts probability cells", None),
    ("MC_EvalOpTiny", "MC_EvalOpTiny_NoAction", "evaluator on games accepted without the action in the recall rule", "OInvDeclarative"),
    ("ParWorkers", "MC_ParWorkers_NoMutex", "average-strategy update without the mutex", "NoLostStrategyUpdate"),
    ("ParWorkers", "MC_ParWorkers_Scratch", "utilities parked in a per-infoset scratch cell", "ParEqualsSeq"),
    ("ParWorkers", "MC_ParWorkers_TryLock", "shared accumulator taken with try_lock().unwrap()", "NoPanic"),
    ("ParWorkers", "MC_ParWorkers_NonAtomic", "regret cell updated by load + store instead of fetch_add", "ParEqualsSeq"),
]


def spec_variants():
    """(b) of DESIGN 3.7: every specification variant with a deliberate design error must be refuted by TLC"""
    sys.path.insert(0, os.path.join(ROOT, "lib"))
    from vlib import tlc
    bad = 0
    out = {}
    for module, cfg, what, want in SPEC_VARIANTS:
        env = {"SLICE": 0, "OF": 8, "MAXDEN": 2}
        try:
            res = tlc(module, cfg=cfg, env=env, timeout=3000, allow_violation=True, workers=8)
            ok = res.violated is not None and (want is None or res.violated == want)
            out[cfg] = {"design_error": what, "tlc_reports": res.violated, "refuted": ok, "states": res.distinct}
            print("SPEC-VARIANT %s (%s): %s %s" % (cfg, what, "REFUTED by" if ok else "NOT refuted:", res.violated))
        except Exception as e:  # tool error
            ok = False
            out[cfg] = {"design_error": what, "error": str(e)[:300]}
            print("SPEC-VARIANT %s: tool error %s" % (cfg, str(e)[:300]))
        bad += 0 if ok else 1
    json.dump(out, open(os.path.join(ROOT, "mutants", "SPEC_VARIANTS.json"), "w"), indent=1, sort_keys=True)
    return 1 if bad else 0


def main(argv):
    global REPO
    if "--spec" in argv:
        return spec_variants()
    if "--binding" in argv:
        import binding
        return binding.main(argv)
    check_root = ROOT
    if "--sbx" in argv:
        # run in the sandbox copy of tools/seed.py (/tmp/sbx): /repo itself is never touched
        sys.path.insert(0, os.path.join(ROOT, "tools"))
        import importlib.util
        spec = importlib.util.spec_from_file_location("seedtool", os.path.join(ROOT, "tools", "seed.py"))
        seedtool = importlib.util.module_from_spec(spec)
        spec.loader.exec_module(seedtool)
        seedtool.sandbox()
        REPO, check_root = seedtool.SBX_R, seedtool.SBX_V
    baseline = "--baseline" in argv
    tier = "thorough" if "--thorough" in argv else "quick"
    want = [a for a in argv if not a.startswith("--")]
    skip = [x for a in argv if a.startswith("--skip=") for x in a[len("--skip="):].split(",")]
    if not clean():
        print("selftest: /repo has uncommitted changes to tracked files; refusing to run")
        return 2
    results = {}
    res_path = os.path.join(ROOT, "mutants", "RESULTS.json")
    if os.path.exists(res_path):
        results = json.load(open(res_path))
    failed = 0
    for name, props, patch in collect():
        if want and not any(w == name or w in props or name.startswith(w) for w in want):
            continue
        if name in skip:
            continue
        ap = git("apply", "--whitespace=nowarn", patch)
        if ap.returncode != 0:
            print("MUTANT %s: patch does not apply: %s" % (name, ap.stdout.strip()[:300]))
            results[name] = {"status": "does-not-apply"}
            failed += 1
            continue
        entry = {"properties": props, "checks": {}}
        try:
            if baseline:
                t = time.time()
                b = subprocess.run("cd %s && cargo test --workspace --no-fail-fast --offline 2>&1 | tail -40" % REPO, shell=True,
                                   stdout=subprocess.PIPE, text=True)
                okb = "test result: FAILED" not in b.stdout and "error" not in b.stdout.split("test result")[0][-2000:].lower().replace("error.rs", "")
                entry["baseline_tests_pass"] = okb
                entry["baseline_s"] = round(time.time() - t, 1)
            killed = False
            for pid in props:
                t = time.time()
                p = subprocess.run([os.path.join(check_root, "check"), pid, "--tier", tier], stdout=subprocess.PIPE,
                                   stderr=subprocess.STDOUT, text=True, cwd=check_root)
                vio = [l for l in p.stdout.splitlines() if l.startswith("VIOLATION")]
                sig = ""
                if vio:
                    try:
                        rp = vio[0].split("replay=")[1].strip()
                        sig = json.load(open(rp)).get("signature", "")
                    except Exception:
                        pass
                entry["checks"][pid] = {"exit": p.returncode, "violations": len(vio), "signature": sig,
                                        "wall_s": round(time.time() - t, 1)}
                if p.returncode == 1 and vio:
                    killed = True
                elif p.returncode == 2:
                    entry["checks"][pid]["tool_error"] = p.stdout[-600:]
            entry["killed"] = killed
            print("MUTANT %s: %s %s" % (name, "KILLED" if killed else "SURVIVED", json.dumps(entry["checks"])))
            if not killed:
                failed += 1
        finally:
            git("checkout", "--", ".")
        results[name] = entry
        os.makedirs(os.path.dirname(res_path), exist_ok=True)
        json.dump(results, open(res_path, "w"), indent=1, sort_keys=True)
    return 1 if failed else 0
