"""Infrastructure of the check driver: building, running TLC and the harness, evidence."""
import json
import os
import re
import shutil
import subprocess
import sys
import time

ROOT = os.path.dirname(os.path.dirname(os.path.abspath(__file__)))
WORK = os.path.join(ROOT, "work")
SPEC = os.path.join(ROOT, "spec")
HARNESS_DIR = os.path.join(ROOT, "harness")
HARNESS = os.path.join(HARNESS_DIR, "target", "release", "harness")
CLI_TARGET = os.path.join(WORK, "bin-target")
CLI = os.path.join(CLI_TARGET, "release", "cfr")
REPO = "/repo"


class ToolError(Exception):
    pass


def log(msg):
    print(msg, flush=True)


def sh(cmd, cwd=None, env=None, timeout=None, check=False):
    e = dict(os.environ)
    e.update({"CARGO_NET_OFFLINE": "true"})
    if env:
        e.update({k: str(v) for k, v in env.items()})
    try:
        p = subprocess.run(cmd, cwd=cwd, env=e, timeout=timeout, stdout=subprocess.PIPE,
                           stderr=subprocess.STDOUT, text=True, errors="replace")
    except subprocess.TimeoutExpired as ex:
        raise ToolError("timeout after %ss: %s" % (timeout, " ".join(cmd[:6]))) from ex
    if check and p.returncode != 0:
        raise ToolError("command failed (%d): %s\n%s" % (p.returncode, " ".join(cmd[:8]), p.stdout[-4000:]))
    return p.returncode, p.stdout


_built = {}


def build_harness():
    if "harness" in _built:
        return HARNESS
    os.makedirs(WORK, exist_ok=True)
    lock = os.path.join(HARNESS_DIR, "Cargo.lock")
    if not os.path.exists(lock):
        shutil.copy(os.path.join(REPO, "Cargo.lock"), lock)
    t = time.time()
    sh(["cargo", "build", "--release", "--offline"], cwd=HARNESS_DIR, timeout=1800, check=True)
    _built["harness"] = time.time() - t
    return HARNESS


def build_cli():
    if "cli" in _built:
        return CLI
    os.makedirs(WORK, exist_ok=True)
    sh(["cargo", "build", "--release", "--offline", "--manifest-path", os.path.join(REPO, "Cargo.toml"),
        "--target-dir", CLI_TARGET], cwd=REPO, timeout=1800, check=True)
    _built["cli"] = True
    return CLI


class LibraryPanic(ToolError):
    """the code under test panicked (location under /repo/src), or returned an error, on an input the harness
    built as a valid one, outside every scope in which the harness expects and records panics: that is data about the
    code, not a tool failure"""

    def __init__(self, msg, detail):
        ToolError.__init__(self, msg)
        self.detail = detail


_PANIC_RE = re.compile(r"harness panic: panicked at ([^\n]*?):(\d+):(\d+):\n([^\n]*)")
_ERR_RE = re.compile(r"^[A-Za-z0-9 '`_\-]+: (\w+|\w+ ?[({].*[)}])$")


def harness(args, timeout=1800, env=None, ok_codes=(0,)):
    build_harness()
    rc, out = sh([HARNESS] + [str(a) for a in args], cwd=WORK, timeout=timeout, env=env)
    if rc == 101 and rc not in ok_codes:
        m = _PANIC_RE.search(out)
        if m:
            loc, msg = m.group(1), m.group(4)
            in_library = loc.startswith("/repo/src/")
            # `.expect("<what the harness built>")` / `.unwrap()` on an Err returned by the library for a valid input
            on_err = (not in_library) and ("called `Result::unwrap()` on an `Err` value" in msg or _ERR_RE.match(msg) is not None)
            if in_library or on_err:
                raise LibraryPanic("harness %s: %s at %s:%s: %s" % (" ".join(map(str, args[:4])),
                                   "the library panicked" if in_library else "the library rejected a valid input", loc, m.group(2), msg),
                                   {"command": [str(a) for a in args], "location": "%s:%s" % (loc, m.group(2)), "message": msg,
                                    "in_library": in_library})
    if rc not in ok_codes:
        raise ToolError("harness %s failed (%d):\n%s" % (" ".join(map(str, args[:4])), rc, out[-4000:]))
    return out


_OUT_RE = re.compile(r'^<<"([A-Z]+)", (-?\d+), "(.*)">>$')


def _unescape(s):
    out = []
    i = 0
    while i < len(s):
        c = s[i]
        if c == "\\" and i + 1 < len(s):
            n = s[i + 1]
            out.append({"n": "\n", "t": "\t"}.get(n, n))
            i += 2
        else:
            out.append(c)
            i += 1
    return "".join(out)


class TlcResult:
    def __init__(self, text, rc, wall):
        self.text = text
        self.rc = rc
        self.wall = wall
        self.records = []  # (tag, id, value)
        self.generated = 0
        self.distinct = 0
        self.violated = None
        self.error = None
        self.coverage = {}
        for line in text.splitlines():
            m = _OUT_RE.match(line)
            if m:
                try:
                    self.records.append((m.group(1), int(m.group(2)), json.loads(_unescape(m.group(3)))))
                except Exception:
                    self.error = "unparsable output line: " + line[:200]
                continue
            m = re.match(r"^(\d+) states generated, (\d+) distinct states found", line)
            if m:
                self.generated = int(m.group(1))
                self.distinct = int(m.group(2))
            m = re.match(r"^Error: Invariant (\S+) is violated", line)
            if m:
                self.violated = m.group(1)
            m = re.match(r"^Error: Action property (\S+) is violated", line)
            if m:
                self.violated = m.group(1)
            m = re.match(r"^Error: Temporal properties were violated", line)
            if m:
                self.violated = "temporal"
            if line.startswith("Error: Deadlock reached"):
                self.violated = "deadlock"
            if line.startswith("Error: Postcondition"):
                self.violated = "postcondition"
            if line.startswith("Error:") and self.violated is None and self.error is None:
                self.error = line
            m = re.match(r"^<(\w+) line \d+, col \d+ to line \d+, col \d+ of module (\w+)>: (\d+):(\d+)", line)
            if m:
                self.coverage[m.group(1)] = self.coverage.get(m.group(1), 0) + int(m.group(4))

    def out(self, tag="OUT"):
        return [(i, v) for (t, i, v) in self.records if t == tag]


_tlc_counter = [0]


def tlc(module, cfg=None, env=None, workers=16, timeout=900, simulate=None, depth=None, deque=False,
        coverage=False, xmx="8g", extra=None, allow_violation=False):
    """run TLC on spec/<module>.tla; returns TlcResult; raises ToolError on tool failure"""
    os.makedirs(WORK, exist_ok=True)
    _tlc_counter[0] += 1
    meta = os.path.join(WORK, "tlc-%d-%d" % (os.getpid(), _tlc_counter[0]))
    shutil.rmtree(meta, ignore_errors=True)
    cfgp = os.path.join(SPEC, (cfg or module) + ".cfg")
    jopts = "-Xss512m"
    if deque:
        jopts += " -Dtlc2.tool.queue.IStateQueue=StateDeque"
    cmd = ["timeout", str(timeout), "java", "-XX:+UseParallelGC", "-Xmx" + xmx, "-Xss512m"]
    if deque:
        cmd.append("-Dtlc2.tool.queue.IStateQueue=StateDeque")
    cmd += ["-cp", "/opt/veriftools/tla/tla2tools.jar:/opt/veriftools/tla/CommunityModules-deps.jar", "tlc2.TLC",
            "-workers", str(workers), "-metadir", meta, "-cleanup", "-noGenerateSpecTE", "-config", cfgp]
    if coverage:
        cmd += ["-coverage", "1"]
    if simulate:
        cmd += ["-simulate", "num=%d" % simulate]
        if depth:
            cmd += ["-depth", str(depth)]
    if extra:
        cmd += extra
    cmd.append(os.path.join(SPEC, module + ".tla"))
    t = time.time()
    rc, text = sh(cmd, cwd=SPEC, env=env, timeout=timeout + 30)
    shutil.rmtree(meta, ignore_errors=True)
    res = TlcResult(text, rc, time.time() - t)
    if rc == 124:
        raise ToolError("TLC timeout on %s after %ss" % (module, timeout))
    if res.violated and not allow_violation:
        raise ToolError("TLC reports %s violated in %s (model-level failure):\n%s" % (res.violated, module, text[-3000:]))
    if res.error or (rc != 0 and not res.violated):
        raise ToolError("TLC failed on %s (rc %d): %s\n%s" % (module, rc, res.error, text[-3000:]))
    return res


def tlc_stream(module, exp_path, tag="OUT", cfg=None, env=None, workers=16, timeout=900, xmx="8g"):
    """like tlc(), for enumerations too large to hold in memory: TLC's output goes to a file, every <<tag, id, json>> line
    is written to `exp_path` as {"id": n, "exp": value} (n = 0, 1, ...) while the file is read line by line; returns
    (TlcResult of the remaining lines, number of records)"""
    os.makedirs(WORK, exist_ok=True)
    _tlc_counter[0] += 1
    meta = os.path.join(WORK, "tlc-%d-%d" % (os.getpid(), _tlc_counter[0]))
    shutil.rmtree(meta, ignore_errors=True)
    cfgp = os.path.join(SPEC, (cfg or module) + ".cfg")
    cmd = ["timeout", str(timeout), "java", "-XX:+UseParallelGC", "-Xmx" + xmx, "-Xss512m",
           "-cp", "/opt/veriftools/tla/tla2tools.jar:/opt/veriftools/tla/CommunityModules-deps.jar", "tlc2.TLC",
           "-workers", str(workers), "-metadir", meta, "-cleanup", "-noGenerateSpecTE", "-config", cfgp,
           os.path.join(SPEC, module + ".tla")]
    e = dict(os.environ)
    if env:
        e.update({k: str(v) for k, v in env.items()})
    raw = exp_path + ".tlcout"
    t = time.time()
    with open(raw, "w") as f:
        try:
            rc = subprocess.run(cmd, cwd=SPEC, env=e, timeout=timeout + 30, stdout=f, stderr=subprocess.STDOUT).returncode
        except subprocess.TimeoutExpired as ex:
            raise ToolError("TLC timeout on %s after %ss" % (module, timeout)) from ex
    shutil.rmtree(meta, ignore_errors=True)
    rest = []
    n = 0
    bad = None
    with open(raw, errors="replace") as f, open(exp_path, "w") as out:
        for line in f:
            line = line.rstrip("\n")
            m = _OUT_RE.match(line)
            if m and m.group(1) == tag:
                try:
                    v = json.loads(_unescape(m.group(3)))
                except Exception:
                    bad = "unparsable output line: " + line[:200]
                    continue
                out.write(json.dumps({"id": n, "exp": v}, separators=(",", ":")) + "\n")
                n += 1
            elif len(rest) < 20000:
                rest.append(line)
    os.remove(raw)
    text = "\n".join(rest)
    res = TlcResult(text, rc, time.time() - t)
    if bad:
        res.error = bad
    if rc == 124:
        raise ToolError("TLC timeout on %s after %ss" % (module, timeout))
    if res.violated:
        raise ToolError("TLC reports %s violated in %s (model-level failure):\n%s" % (res.violated, module, text[-3000:]))
    if res.error or rc != 0:
        raise ToolError("TLC failed on %s (rc %d): %s\n%s" % (module, rc, res.error, text[-3000:]))
    return res, n


def iter_ndjson(path):
    with open(path) as f:
        for l in f:
            if l.strip():
                yield json.loads(l)


def read_ndjson(path):
    with open(path) as f:
        return [json.loads(l) for l in f if l.strip()]


def write_ndjson(path, rows):
    with open(path, "w") as f:
        for r in rows:
            f.write(json.dumps(r, separators=(",", ":")) + "\n")


def load_known():
    path = os.path.join(ROOT, "known_findings.json")
    with open(path) as f:
        return json.load(f)["findings"]


def canon(x):
    return json.dumps(x, sort_keys=True, separators=(",", ":"))


class Run:
    """collects what one check run covered and what it found"""

    def __init__(self, pid, tier, seed, level):
        self.pid = pid
        self.tier = tier
        self.seed = seed
        self.level = level
        self.t0 = time.time()
        self.states = 0
        self.transitions = 0
        self.traces = 0
        self.evaluations = 0
        self.distinct = set()
        self.samples = []
        self.violations = []
        self.known = []
        self.counters = {}
        self.assumptions = []
        self.rule = ""
        self.exhaustive = False
        self.notes = {}
        self.dir = os.path.join(WORK, pid)
        os.makedirs(self.dir, exist_ok=True)
        os.makedirs(os.path.join(ROOT, "evidence"), exist_ok=True)

    def path(self, name):
        return os.path.join(self.dir, name)

    def count(self, key, n=1):
        self.counters[key] = self.counters.get(key, 0) + n

    def add_tlc(self, res):
        self.states += res.distinct
        self.transitions += res.generated

    def evaluated(self, case_key, nontrivial=True, n=1):
        self.evaluations += n
        if nontrivial:
            self.distinct.add(case_key if isinstance(case_key, str) else canon(case_key))

    def sample(self, x, limit=3):
        if len(self.samples) < limit:
            self.samples.append(x)

    def violation(self, signature, detail):
        """signature: short string matched against known_findings.json"""
        for k in load_known():
            if k.get("property") == self.pid and k.get("kind") == "known" and k.get("match") == signature:
                if signature not in [s for s, _ in self.known]:
                    self.known.append((signature, k.get("what", "")))
                return
        self.violations.append((signature, detail))

    def finish(self):
        wall = time.time() - self.t0
        for sig, what in self.known:
            log("KNOWN-FINDING: property=%s %s [%s]" % (self.pid, what, sig))
        replay_paths = []
        rdir = os.path.join(WORK, "replay")
        os.makedirs(rdir, exist_ok=True)
        for n, (sig, detail) in enumerate(self.violations[:20]):
            p = os.path.join(rdir, "%s-%d.json" % (self.pid, n))
            with open(p, "w") as f:
                json.dump({"property": self.pid, "signature": sig, "detail": detail}, f, indent=1)
            replay_paths.append(p)
            log("VIOLATION property=%s replay=%s" % (self.pid, p))
        cov = {
            "evaluations": self.evaluations,
            "distinct_nontrivial": len(self.distinct),
            "rule": self.rule,
            "samples": self.samples if self.samples else [],
            "exhaustive": self.exhaustive,
            "counters": self.counters,
        }
        if self.level == "model_checking":
            cov.update({"states": self.states, "transitions": self.transitions,
                        "traces_validated_against_impl": self.traces})
        cov.update(self.notes)
        ev = {
            "property_id": self.pid,
            "tier": self.tier,
            "seed": self.seed,
            "level": self.level,
            "coverage": cov,
            "assumptions": self.assumptions,
            "wall_s": round(wall, 2),
            "violations": len(self.violations),
            "known_findings_hit": [s for s, _ in self.known],
        }
        if not getattr(self, "replaying", False):   # a --replay run re-examines one case: it is not a coverage statement
            with open(os.path.join(ROOT, "evidence", self.pid + ".json"), "w") as f:
                json.dump(ev, f, indent=1)
        log("%s %s: %d evaluations, %d distinct non-trivial, %d states, %d traces, %d violations, %.1fs" % (
            self.pid, self.tier, self.evaluations, len(self.distinct), self.states, self.traces,
            len(self.violations), wall))
        return 1 if self.violations else 0


def main(argv):
    import checks
    if not argv:
        log(__doc__)
        sys.exit(2)
    if argv[0] == "setup":
        try:
            build_harness()
            build_cli()
        except ToolError as e:
            log("setup failed: %s" % e)
            sys.exit(2)
        sys.exit(0)
    if argv[0] == "selftest":
        import selftest
        sys.exit(selftest.main(argv[1:]))
    pid = argv[0]
    tier = os.environ.get("VERIF_TIER", "quick")
    replay = None
    i = 1
    while i < len(argv):
        if argv[i] == "--tier":
            tier = argv[i + 1]
            i += 2
        elif argv[i] == "--replay":
            replay = argv[i + 1]
            i += 2
        else:
            i += 1
    if tier not in ("quick", "thorough"):
        tier = "quick"
    try:
        seed = int(os.environ.get("VERIF_SEED", "1"))
    except ValueError:
        seed = 1
    fn = getattr(checks, "check_" + pid, None)
    if fn is None:
        log("unknown property %s" % pid)
        sys.exit(2)
    try:
        run = Run(pid, tier, seed, checks.LEVELS[pid])
        run.replaying = replay is not None
        try:
            fn(run, replay)
        except LibraryPanic as e:
            run.violation("harness:library-panic" if e.detail["in_library"] else "harness:valid-input-rejected",
                          {"event": e.detail, "what": str(e)})
        rc = run.finish()
    except ToolError as e:
        log("TOOL-ERROR %s: %s" % (pid, e))
        sys.exit(2)
    sys.exit(rc)


def tlc_trace(module, trace_path, env=None, timeout=900, cfg=None):
    """validate an ndjson trace against spec/<module>; returns (accepted, reject_line_no, reject_record, TlcResult)"""
    e = {"TRACE": trace_path}
    if env:
        e.update(env)
    res = tlc(module, cfg=cfg, env=e, workers=1, timeout=timeout, deque=True, xmx="6g", allow_violation=True,
              extra=None)
    rej = [(i, v) for (t, i, v) in res.records if t == "REJECT"]
    if rej:
        return False, rej[0][0], rej[0][1], res
    if "Postcondition" in res.text and "is false" in res.text:
        return False, -1, None, res
    if res.violated:
        raise ToolError("trace spec %s: TLC reports %s\n%s" % (module, res.violated, res.text[-2000:]))
    return True, None, None, res
