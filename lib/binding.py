"""`./check selftest --binding`: the trace specifications are bound to what was recorded, not only to its length.

For every trace specification: take the trace the last quick run of the property recorded from the real code
(work/<id>/...; `./check <id>` first), confirm that TLC accepts it, then corrupt ONE field of ONE event (or drop one
event - what a removed hook call would look like) and confirm that TLC rejects it AT THAT EVENT.  Results in
mutants/BINDING.json; cited in DESIGN 10.4.  Not a MANIFEST check.
"""
import copy
import json
import os
import sys

ROOT = os.path.dirname(os.path.dirname(os.path.abspath(__file__)))
sys.path.insert(0, os.path.join(ROOT, "lib"))


def first(rows, pred, skip=0):
    n = 0
    for i, r in enumerate(rows):
        if pred(r):
            if n == skip:
                return i
            n += 1
    return None


def set_field(path, value):
    def f(r):
        r = copy.deepcopy(r)
        x = r
        for k in path[:-1]:
            x = x[k]
        x[path[-1]] = value(x[path[-1]]) if callable(value) else value
        return r
    return f


# (module, property, trace file under work/, [(name, event predicate, edit | None = drop the event)])
PLAN = [
    ("Trace_Solve", "C02", "C02/monitor.ndjson", [
        ("run.iters exceeds the budget", lambda r: r.get("e") == "run", lambda r: dict(r, iters=r["T"] + 1)),
        ("run: true regret above the returned bound", lambda r: r.get("e") == "run" and r["method"] == "Full" and r["preset"] == "vanilla",
         lambda r: dict(r, rtlo=max(r["b1hi"], r["b2hi"]) + 1000)),
        ("xrun: bound and regret exchanged", lambda r: r.get("e") == "xrun" and r["bt"] != r["rt"], lambda r: dict(r, bt=r["rt"], rt=r["bt"], b1=r["rt"], b2=r["rt"], r1=r["bt"], r2=r["bt"])),
    ]),
    ("Trace_Stop", "C09", "C09/stop.ndjson", [
        ("run: one iteration's bounds dropped (a missing IterEnd hook)", lambda r: r.get("e") == "run" and len(r["iterbounds"]) >= 2,
         lambda r: dict(r, iterbounds=r["iterbounds"][:-1])),
        ("run: returned bounds of another iteration", lambda r: r.get("e") == "run" and len(r["iterbounds"]) >= 2 and r["iterbounds"][0] != r["iterbounds"][-1],
         lambda r: dict(r, ret=r["iterbounds"][0])),
        ("run: digest of another prefix", lambda r: r.get("e") == "run" and r["k"] == 1 and len(r["iterbounds"]) >= 1,
         lambda r: dict(r, digest=[r["digest"][0] + 1] + r["digest"][1:])),
    ]),
    ("Trace_Par", "C06", "C06/par_Full.ndjson", [
        ("pass: one entered node dropped (a missing Visit hook)", lambda r: r.get("e") == "pass" and len(r["entered"]) >= 2,
         lambda r: dict(r, entered=r["entered"][:-1])),
        ("pass: a node entered twice", lambda r: r.get("e") == "pass" and len(r["entered"]) >= 2,
         lambda r: dict(r, entered=r["entered"] + r["entered"][-1:])),
    ]),
    ("Trace_Par", "C07", "C07/par_External.ndjson", [
        ("pass: first draw removed (a missing draw hook)", lambda r: r.get("e") == "pass" and len(r["draws"]) >= 1,
         lambda r: dict(r, draws=r["draws"][1:])),
        ("pass: a draw says another outcome than the one followed", lambda r: r.get("e") == "pass" and len(r["draws"]) >= 1,
         lambda r: dict(r, draws=[dict(r["draws"][0], ix=r["draws"][0]["ix"] % 2 + 1)] + r["draws"][1:])),
    ]),
    ("Trace_Sample", "C10", "C10/sample.ndjson", [
        ("pass: the drawn outcome has weight zero", lambda r: r.get("e") == "pass" and len(r["draws"]) >= 1,
         lambda r: dict(r, draws=[dict(r["draws"][0], pos=0)] + r["draws"][1:])),
        ("pass: reset counter of a draw off by one", lambda r: r.get("e") == "pass" and len(r["draws"]) >= 1,
         lambda r: dict(r, draws=[dict(r["draws"][0], **{"pass": r["draws"][0]["pass"] + 1})] + r["draws"][1:])),
        ("a pass event dropped", lambda r: r.get("e") == "pass", None),
    ]),
    ("Trace_NamedView", "C13", "C13/trace.ndjson", [
        ("olen: advertised length off by one", lambda r: r.get("e") == "olen", lambda r: dict(r, v=r["v"] + 1)),
        ("an onext event dropped (a missing item)", lambda r: r.get("e") == "onext" and r.get("kind") != "none", None),
        ("ilen: advertised length off by one", lambda r: r.get("e") == "ilen", lambda r: dict(r, v=r["v"] + 1)),
    ]),
    ("Trace_Eval", "C01", "C01/evaltrace.ndjson", [
        ("eval: one resolution step dropped (a missing EvalPop hook)", lambda r: r.get("e") == "eval" and len(r["one"]["pops"]) >= 2,
         lambda r: dict(r, one=dict(r["one"], pops=r["one"]["pops"][:-1]))),
        ("eval: two resolution steps exchanged", lambda r: r.get("e") == "eval" and len(r["one"]["pops"]) >= 2 and r["one"]["pops"][0] != r["one"]["pops"][-1],
         lambda r: dict(r, one=dict(r["one"], pops=r["one"]["pops"][::-1]))),
        ("eval: another result", lambda r: r.get("e") == "eval", lambda r: dict(r, one=dict(r["one"], result=[r["one"]["result"][0] + 1, r["one"]["result"][1]]))),
    ]),
]


def main(argv):
    from vlib import WORK, read_ndjson, tlc_trace, write_ndjson
    out = {}
    bad = 0
    for module, pid, rel, edits in PLAN:
        path = os.path.join(WORK, rel)
        if not os.path.exists(path):
            print("BINDING %s: no recorded trace %s (run ./check %s first)" % (module, rel, pid))
            bad += 1
            continue
        rows = read_ndjson(path)
        # a prefix is enough: keep the trace small so that each validation takes seconds
        key = "%s on %s" % (module, rel)
        out[key] = {}
        for name, pred, edit in edits:
            # take the SECOND matching event where there is one (the first is often special)
            i = first(rows, pred, 1)
            if i is None:
                i = first(rows, pred, 0)
            if i is None:
                out[key][name] = {"status": "no such event in the trace"}
                print("BINDING %s / %s: no such event" % (module, name))
                bad += 1
                continue
            keep = rows[:max(i + 40, 200)]
            okp = os.path.join(WORK, "binding.ok.ndjson")
            write_ndjson(okp, keep)
            ok0, line0, _, _ = tlc_trace(module, okp, timeout=3000)
            corrupted = keep[:i] + ([] if edit is None else [edit(keep[i])]) + keep[i + 1:]
            badp = os.path.join(WORK, "binding.bad.ndjson")
            write_ndjson(badp, corrupted)
            ok1, line1, rec1, _ = tlc_trace(module, badp, timeout=3000)
            # a dropped event shows at the next event that no longer fits; an edited one at the event itself
            rejected_here = (not ok1) and line1 is not None and (line1 == i + 1 if edit is not None else line1 >= i + 1)
            good = ok0 and rejected_here
            out[key][name] = {"event_line": i + 1, "original_accepted": ok0, "corrupted_accepted": ok1,
                              "rejected_at_line": line1, "demonstrated": good}
            print("BINDING %s / %s: original %s, corrupted %s at line %s (event line %d) -> %s" % (
                module, name, "accepted" if ok0 else "REJECTED at %s" % line0, "accepted" if ok1 else "rejected", line1, i + 1,
                "ok" if good else "NOT DEMONSTRATED"))
            if not good:
                bad += 1
    json.dump(out, open(os.path.join(ROOT, "mutants", "BINDING.json"), "w"), indent=1, sort_keys=True)
    return 1 if bad else 0


if __name__ == "__main__":
    sys.exit(main(sys.argv[1:]))
