#!/usr/bin/env python3
"""tools/seed.py confirm <worktree> <name>
Confirms a sub-agent's seeded change in its scratch worktree and stores it as seeded/<name>/:
  demo passes on the clean tree, fails with the patch; the unedited baseline suite passes with the patch.
tools/seed.py try <name> [check ids...]   applies seeded/<name>/patch.diff to /repo, runs the checks, restores.
tools/seed.py sbx <name> [check ids...]   the same in a sandbox copy (/tmp/sbx: copy of /verif + scratch worktree of /repo),
                                          so that /repo is never touched; tools/seed.py sandbox-rm removes the sandbox."""
import json, os, shutil, subprocess, sys, time
ROOT = os.path.dirname(os.path.dirname(os.path.abspath(__file__)))

def sh(cmd, cwd=None, timeout=3600):
    p = subprocess.run(cmd, shell=True, cwd=cwd, stdout=subprocess.PIPE, stderr=subprocess.STDOUT, text=True, timeout=timeout,
                       env=dict(os.environ, CARGO_NET_OFFLINE="true"))
    return p.returncode, p.stdout

def confirm(wt, name):
    seed = os.path.join(wt, "SEED")
    patch = os.path.join(seed, "patch.diff")
    demo = os.path.join(seed, "demo.rs")
    meta = json.load(open(os.path.join(seed, "meta.json")))
    sh("git checkout -- . && rm -f tests/demo.rs", cwd=wt)
    os.makedirs(os.path.join(wt, "tests"), exist_ok=True)
    shutil.copy(demo, os.path.join(wt, "tests", "demo.rs"))
    rc_clean, out_clean = sh("cargo test --offline -j 8 --test demo 2>&1 | tail -30", cwd=wt)
    clean_pass = "test result: ok" in out_clean and "FAILED" not in out_clean
    rc, out = sh("git apply --whitespace=nowarn SEED/patch.diff", cwd=wt)
    if rc != 0:
        print("patch does not apply:", out); return 1
    rc_mut, out_mut = sh("cargo test --offline -j 8 --test demo 2>&1 | tail -30", cwd=wt)
    mut_fail = "FAILED" in out_mut or "panicked" in out_mut
    os.remove(os.path.join(wt, "tests", "demo.rs"))
    rc_b, out_b = sh("cargo test --workspace --no-fail-fast --offline -j 8 2>&1 | grep -E '^test result|FAILED|^error' ", cwd=wt)
    base_pass = "FAILED" not in out_b and "\nerror" not in ("\n" + out_b) and out_b.count("test result: ok") >= 3
    sh("git checkout -- .", cwd=wt)
    print("demo passes on clean tree:", clean_pass, "| demo fails with patch:", mut_fail, "| baseline passes with patch:", base_pass)
    if not (clean_pass and mut_fail and base_pass):
        print(out_clean[-800:], "\n----\n", out_mut[-800:], "\n----\n", out_b[-800:])
        return 1
    dst = os.path.join(ROOT, "seeded", name)
    os.makedirs(dst, exist_ok=True)
    shutil.copy(patch, os.path.join(dst, "patch.diff"))
    shutil.copy(demo, os.path.join(dst, "demo.rs"))
    meta["confirmed"] = {"demo_passes_on_clean_tree": clean_pass, "demo_fails_with_patch": mut_fail,
                         "baseline_suite_passes_with_patch": base_pass,
                         "ran": ["cargo test --offline --test demo (clean, then patched)",
                                 "cargo test --workspace --no-fail-fast --offline (patched, demo removed)"]}
    json.dump(meta, open(os.path.join(dst, "meta.json"), "w"), indent=1)
    print("stored", dst)
    return 0

SBX = os.environ.get("SBX_DIR", "/tmp/sbx")
SBX_V, SBX_R = SBX + "/verif", SBX + "/repo"

def sandbox():
    """a copy of /verif whose harness and CLI build from a scratch worktree of /repo: seeded changes can be tried
    without touching /repo (and without overwriting /verif/evidence); removed with `tools/seed.py sandbox-rm`"""
    os.makedirs(SBX, exist_ok=True)
    if not os.path.exists(SBX_R):
        rc, out = sh("git -C /repo worktree add --detach %s HEAD" % SBX_R)
        assert rc == 0, out
    sh("git -C %s checkout -q --detach %s && git -C %s checkout -- ." % (SBX_R, sh("git -C /repo rev-parse HEAD")[1].strip(), SBX_R))
    sh("rsync -a --delete --exclude work --exclude harness/target --exclude .git --exclude evidence %s/ %s/" % (ROOT, SBX_V))
    os.makedirs(SBX_V + "/evidence", exist_ok=True)
    sh("sed -i 's#path = \"/repo\"#path = \"%s\"#' %s/harness/Cargo.toml" % (SBX_R, SBX_V))
    sh("sed -i 's#^REPO = \"/repo\"#REPO = \"%s\"#; s#loc.startswith(\"/repo/src/\")#loc.startswith(\"%s/src/\")#' %s/lib/vlib.py" % (SBX_R, SBX_R, SBX_V))

def try_(name, ids, sbx=False):
    dst = os.path.join(ROOT, "seeded", name)
    meta = json.load(open(os.path.join(dst, "meta.json")))
    ids = ids or [meta["property"]]
    repo, root = ("/repo", ROOT)
    if sbx:
        sandbox()
        repo, root = SBX_R, SBX_V
    rc, out = sh("git -C %s status --porcelain --untracked-files=no" % repo)
    assert out.strip() == "", repo + " dirty"
    rc, out = sh("git -C %s apply --whitespace=nowarn %s/patch.diff" % (repo, dst))
    if rc != 0:
        print("does not apply", out); return 1
    res = {}
    try:
        for pid in ids:
            t = time.time()
            rc, out = sh("./check %s --tier quick" % pid, cwd=root, timeout=7200)
            vio = [l for l in out.splitlines() if l.startswith("VIOLATION")]
            sig = ""
            if vio:
                try: sig = json.load(open(vio[0].split("replay=")[1].strip())).get("signature", "")
                except Exception: pass
            res[pid] = {"exit": rc, "violations": len(vio), "signature": sig, "wall_s": round(time.time() - t, 1)}
            print(pid, res[pid])
            if rc == 2: print(out[-1500:])
    finally:
        sh("git -C %s checkout -- ." % repo)
    meta.setdefault("checks_run", {}).update(res)
    meta["detected_by"] = sorted(p for p, r in meta["checks_run"].items() if r["exit"] == 1 and r["violations"] > 0)
    json.dump(meta, open(os.path.join(dst, "meta.json"), "w"), indent=1)
    return 0

if __name__ == "__main__":
    if sys.argv[1] == "confirm":
        sys.exit(confirm(sys.argv[2], sys.argv[3]))
    if sys.argv[1] == "sandbox-rm":
        sh("git -C /repo worktree remove --force %s" % SBX_R); sh("rm -rf %s" % SBX); sh("git -C /repo worktree prune"); sys.exit(0)
    sys.exit(try_(sys.argv[2], sys.argv[3:], sbx=(sys.argv[1] == "sbx")))
