#!/usr/bin/env python3
"""Regenerates MANIFEST.json from the table below (kept next to the checks so it stays valid)."""
import json
import os
import subprocess

ROOT = os.path.dirname(os.path.dirname(os.path.abspath(__file__)))
props = [json.loads(l) for l in open(os.path.join(ROOT, "properties.jsonl"))]

CHECKS = {
    "C01": dict(
        category="model_checking", design_ref="4 C01",
        technique="TLA+ declarative game semantics (Game.tla: expected utility, brute-force best response) evaluated "
                  "by TLC on every case; exact values replayed into get_info() (spec -> impl conformance)",
        text="TLC evaluates the declarative meaning of the game (an exponential brute-force oracle, independent of the "
             "implementation's bottom-up algorithm) exactly on every generated (tree, profile) and the harness compares "
             "get_info() with it; complete on each case, bounded by the size of the universe.",
        note="trusts TLC's evaluation of Rat.tla / Game.tla and that f64 evaluation of these small games is within 1e-11"),
    "C18": dict(
        category="model_checking", design_ref="4 C18",
        technique="TLC enumerates all grid profiles x thresholds, checks the Truncate theorems of Strategy.tla, and "
                  "each behaviour is replayed into Strategies::truncate",
        text="exhaustive over the grid universe (all zero patterns, thresholds at / between / below / above every "
             "probability, NaN and infinities); the specified result is compared entry by entry with the real truncate.",
        note="universe bounded by denominators <= 3 (quick) / 5 (thorough) and three infosets"),
    "C19": dict(
        category="model_checking", design_ref="4 C19",
        technique="TLC enumerates pairs of grid profiles x exponents and the facts the property demands (MC_Dist.tla, "
                  "checked on a reference distance); each pair is replayed into Strategies::distance both ways round",
        text="exhaustive over the grid universe including a player without any multi-action infoset, disjoint supports, "
             "identical profiles, p in {1/2,1,3/2,2,3,10} and the non-positive exponents that must panic.",
        note="grid denominators <= 2 (quick) / 3 (thorough); exponents from a fixed set; p<1 range excess is a listed known finding"),
    "C14": dict(
        category="model_checking", design_ref="4 C14",
        technique="TLC builds all entry lists up to a bound, checks operational import = declarative contract "
                  "(Strategy.tla ImportMatchesDeclarative) on every state, and replays each list into from_named and "
                  "from_named_eq comparing outcome, error kind, probabilities and the two paths",
        text="exhaustive up to 2 entries x 2 pairs per player over existing / foreign / other-player infosets, legal / "
             "illegal / repeated actions, invalid weights and four scale classes; both import paths on every list.",
        note="alphabets and list lengths bounded; the error kind must be in the set of violated rules, the exact kind "
             "predicted by the operational model is compared as model deviation only"),
    "C13": dict(
        category="model_checking", design_ref="4 C13",
        technique="NamedView.tla (iterator protocol as a state machine) model-checked by TLC; traces of the real "
                  "as_named() iterators (len before every next) validated against Trace_NamedView.tla",
        text="the model settles what len() must count (TLC refutes the cell-counting design); every event of the real "
             "iterators on imported, truncated and solved profiles must be a step of the specification, including the "
             "item identity, probability tokens, sums in micro-units and the round trip.",
        note="trace validation covers the runs recorded (seeded corpus); single-action infoset order left open"),
    "C11": dict(
        category="model_checking", design_ref="4 C11",
        technique="Contract.tla (documented class as a declarative predicate) and Build.tla (operational model of "
                  "init_recurse) related by TLC-checked theorems on every tree of an exhaustively enumerated universe and "
                  "of a single-edit fault catalogue; every tree replayed into Game::from_root (verdict, error kind, "
                  "renumbering-invariant compact game, evaluation / solving on accepted trees)",
        text="exhaustive over U-tiny (394758 trees, valid and invalid; quick = 1/16 slice) plus every single edit at "
             "every node of seeded larger valid trees; the verdict must be Ok iff no rule is violated and an error must "
             "name a violated rule.",
        note="small label alphabets, integer weights; two acceptances outside the class (R3s, R8) are listed known "
             "findings; two others (R5 single/multi clash, R7 forgotten action) were repaired by fix: commits"),
    "C08": dict(
        category="model_checking", design_ref="4 C08",
        technique="Cfr.tla (documented discounted CFR over exact rationals, symbolic atoms for irrational discounts) "
                  "evaluated by TLC; one-step conformance from injected states at arbitrary iteration index through the "
                  "production loops (1 and 2 threads) plus exact trajectories T<=3 through the public API",
        text="inductive: the initial state, one iteration from an arbitrary state (all regret-matching branches, all "
             "discount special cases, every method, pinned draws) and the final normalisation are each compared with the "
             "specification, so every trajectory is covered by induction rather than by long exact runs (impossible: "
             "exact iterates double in size per iteration).",
        note="irrational atoms t^e/(t^e+1), (t/(t+1))^g, exp evaluated by libm in the harness; ties and fragile "
             "(exactly-zero) decisions are compared against the admissible set, not a single value"),
    "C02": dict(
        category="model_checking", design_ref="4 C02",
        technique="TLC checks BoundDominates on exact Cfr.tla trajectories (T<=3) replayed into solve(); long real runs "
                  "(budgets to 2500/10000, thresholds around every bound, 1..16 threads) recorded and validated against "
                  "Trace_Solve.tla (bound >= regret, early stop => regret < threshold)",
        text="exact for T<=3 on seeded small games (the model's bound and brute-force regret), monitored beyond that with "
             "the evaluation validated by C01 as instrument.",
        note="the CFR theorem itself is not proved; micro-unit comparisons are sound in the direction used"),
    "C03": dict(
        category="exploration", design_ref="4 C03",
        technique="Trace_Solve.tla recomputes D, N, A from the raw tree and checks the rate envelopes on recorded real "
                  "runs of all presets; RateHolds checked exactly by TLC on Cfr.tla trajectories T<=3",
        text="finite envelopes at budgets 1..2500 (10000 thorough) on adversarial families and seeded games stand in for "
             "the asymptotic claim; exploration with an exact small-model part.",
        note="the envelopes are loose (measured worst ratio 0.006): this kills changes that stop convergence, wrong "
             "iterates are C08's"),
    "C04": dict(
        category="exploration", design_ref="4 C04",
        technique="TLC proves the Unbiased lemma exactly on seeded cases (expectation over all draws of the sampled "
                  "increments = unsampled increments, MC_Unbiased.tla); recorded real runs under seeded replayable draws "
                  "validated against Trace_Solve.tla (per-run envelope, corpus statistics)",
        text="statistical property: fixed seeds and corpus, thresholds with measured margin; the model-checked part is "
             "the unbiasedness lemma behind MCCFR convergence.",
        note="games with a chance infoset repeated on a path are outside the lemma (known finding)"),
    "C09": dict(
        category="model_checking", design_ref="4 C09",
        technique="Stop.tla (early-termination loop as a state machine, StopIsPrefix theorem) model-checked by TLC; "
                  "thresholded real runs validated against Trace_Stop.tla using float order tokens",
        text="every thresholded run must be a behaviour of the stop state machine on its own bound sequence and, with one "
             "thread, the bitwise prefix of the unthresholded run; thresholds at next_down / exact / next_up of every bound.",
        note="draws pinned through the hook; several threads only with thresholds 1e-6 away from every bound"),
    "C05": dict(
        category="fault_enumeration", design_ref="4 C05",
        technique="TLC enumerates the configuration lattice (MC_Lattice.tla) with the specified verdict per point; each "
                  "point replayed into Game::solve in a child process under a watchdog",
        text="systematic enumeration of parameter / budget / threshold / thread-count / method / game combinations, "
             "including the boundary values of every parameter; panics, hangs and crashes are data.",
        note="stride slice of a 15M point lattice; usize::MAX/3 exactly is not exercised"),
    "C06": dict(
        category="model_checking", design_ref="4 C06",
        technique="Par.tla (thread_threshold / tasks / cached root traversal with a workspace persisting across passes) "
                  "model-checked by TLC over all tree shapes TLC builds itself; every pass of real multi-threaded solves "
                  "validated against Trace_Par.tla; k threads compared with one thread",
        text="the model shows for every shape up to 11 nodes, target and 3 consecutive passes that every node is entered "
             "exactly once, no task is stale and the cache is current (and exhibits the defect of the pinned code when the "
             "workspace is not cleared); the traces bind the real frontier, task set, visits and cache hits to it.",
        note="real schedules are sampled; results compared at 1e-9 on generic payoffs"),
    "C07": dict(
        category="model_checking", design_ref="4 C07",
        technique="as C06 on the sampled tree (Par.tla instantiated for Sampled / External with draws as a pure function of "
                  "infoset and pass, owner assignments enumerated, NoLockConflict); traces under pinned draws validated "
                  "against Trace_Par.tla; k threads compared with one thread",
        text="exactly-once visits of the sampled part, at most one draw per infoset and pass at allowed sites only, every "
             "lock attempt succeeds, frontier as specified; results equal to the single-threaded run under the same draws.",
        note="draws pinned through the cfr_verif hook; model shapes up to 9 nodes for External"),
    "C12": dict(
        category="model_checking", design_ref="4 C12",
        technique="Transform.tla (alternative presentations as operators on raw trees, with the relation each must "
                  "induce on evaluations and solver results) checked by TLC on the exact model (Game.tla, Cfr.tla) for "
                  "every case; both presentations replayed into from_root / get_info / solve(Full) and compared with the "
                  "exact values and with each other under the relation",
        text="TLC checks EvalRelated / SolveRelated exactly (T<=2) on every seeded (game, profile, transformation) and "
             "emits the transformed presentation; the real code must agree with the exact values on both presentations "
             "and relate the two solutions as stated for budgets up to 100 (1000 thorough) and all presets.",
        note="impl-vs-impl comparisons use integer payoffs at 1e-12 where both sides perform the same operations and "
             "generic payoffs at 1e-9 otherwise; finite non-zero softmax weights excluded for payoff scaling"),
    "C10": dict(
        category="model_checking", design_ref="4 C10",
        technique="Sampler.tla (inverse-CDF categorical sampler, once-per-pass draw cache) model-checked by TLC over all "
                  "small weight vectors x all interval endpoints and midpoints and replayed into the production sampler; "
                  "solves with live randomness recorded through observer hooks and validated against Trace_Sample.tla "
                  "(draw sites, one draw per infoset and pass, nodes entered follow the draws, declared weights / current "
                  "strategy, reset counters, chi-square frequency test evaluated by TLC on its own tallies)",
        text="the sampler table is exhaustive over vectors of length <=4 with weights <=3 (4 thorough); every recorded pass "
             "of real solves must be a behaviour of the trace specification; the distribution actually sampled from is "
             "observable only statistically (1000 draws per distribution, threshold at the 1-1e-9 quantile).",
        note="the frequency part is a statistical test (false-alarm probability < 1e-9 per distribution); the alias-table "
             "sampler of rand_distr is trusted beyond that"),
    "C15": dict(
        category="model_checking", design_ref="4 C15",
        technique="Efg.tla (meaning of a Gambit document: accumulated interior payoffs, shared outcomes, infoset names, "
                  "constant sum) and Game.tla evaluate the PRINTED strategies of every recorded run of the binary exactly "
                  "on the game as written (MC_Cli.tla); printed numbers and names judged against TLC's values, the library's "
                  "evaluation on the independently built game, and Cfr.tla's strategies for exact budgets",
        text="every recorded run (rendering styles x options) is judged by the specification: names and distributions "
             "exactly, utilities / regrets exactly whenever the printed strategies are small rationals (78 of 90 quick "
             "runs), otherwise by the library evaluation validated by C01.",
        note="bounded by the corpus and the rendering styles; long sampled runs are evaluated by the library only"),
    "C16": dict(
        category="model_checking", design_ref="4 C16",
        technique="Cli.tla (option decoding, input routing, clip rule) + Cfr.tla predict the printed solution exactly for "
                  "budgets <= 3 (MC_Cli.tla, incl. the -r stop rule and the strict clip comparison); every route / format / "
                  "encoding / destination / thread count of one game and option tuple is compared with the library's solve "
                  "for the same options and with the other routes",
        text="exact prediction by the specification for exact presets and small games; implementation-vs-library and "
             "route-vs-route equality (1e-12 with one thread on integer payoffs, 1e-9 with several threads on tie-free "
             "dyadic payoffs) for the rest of the option space.",
        note="sampled methods only through C15's checks; clip decisions with zero exact margin are not judged"),
    "C17": dict(
        category="fault_enumeration", design_ref="4 C17",
        technique="fault catalogue applied to abstract documents; Cli.tla Categories / Efg.tla / Contract.tla state the "
                  "admissible diagnostic categories per (document, selected parser), evaluated by TLC for every recorded "
                  "run; the binary's exit status, stderr category, stdout and output file judged against them",
        text="systematic single faults at the level of the abstract document (30 kinds) x input routes x --input-format; "
             "valid and within-tolerance documents must be solved, everything else rejected with a documented category.",
        note="no byte-level fuzzing; one fault per document"),
}

NOT_YET = "check not built yet (construction in progress, see DESIGN.md section 9)"

hooks_commits = subprocess.run(["git", "-C", "/repo", "log", "--format=%h %s"], stdout=subprocess.PIPE, text=True).stdout
source_commits = [l.split()[0] for l in hooks_commits.splitlines() if "verif hooks" in l]

m = {
    "version": 1,
    "setup_cmd": "./check setup",
    "hooks": {
        "guard": "cfr_verif",
        "enable": "harness/.cargo/config.toml passes `--cfg cfr_verif` through build.rustflags; the harness has a path "
                  "dependency on /repo, so every check rebuilds /repo's working tree with the hooks compiled in",
        "baseline_off_cmd": "cd /repo && cargo test --workspace --no-fail-fast --offline",
        "source_commits": source_commits,
        "add_only": True,
    },
    "engines": [
        {"name": "tlc", "path": "spec/", "serves_properties": sorted(CHECKS),
         "kind_free_text": "explicit TLA+ specification checked / evaluated by TLC 1.8 (tla2tools + CommunityModules)"},
        {"name": "harness", "path": "harness/", "serves_properties": sorted(CHECKS),
         "kind_free_text": "Rust conformance harness: replays TLC behaviours into the real code, records traces for TLC"},
    ],
    "checks": [],
    "notes": "driver: ./check <id> [--tier quick|thorough] [--replay file]; exit 0 held / 1 violation / 2 tool error. "
             "known_findings.json lists known and fixed findings.",
    "not_applicable": [],
}
for p in props:
    pid = p["id"]
    if pid in CHECKS:
        c = CHECKS[pid]
        m["checks"].append({
            "property_id": pid,
            "quick_cmd": "./check %s --tier quick" % pid,
            "thorough_cmd": "./check %s --tier thorough" % pid,
            "evidence_file": "/verif/evidence/%s.json" % pid,
            "replay_cmd_template": "./check %s --replay {path}" % pid,
            "engine": "tlc+harness",
            "level_claimed": {"category": c["category"], "text": c["text"], "design_ref": c["design_ref"]},
            "level_note": c["note"],
            "technique": c["technique"],
        })
    else:
        m["not_applicable"].append({"property_id": pid, "reason": NOT_YET})
json.dump(m, open(os.path.join(ROOT, "MANIFEST.json"), "w"), indent=1)
print("checks:", len(m["checks"]), "not_applicable:", len(m["not_applicable"]))
