#!/usr/bin/env python3
"""tools/mkmutant.py <name> <file relative to /repo> <old> <new> [<file> <old> <new> ...]
writes mutants/<name>.diff: exact one-occurrence string replacements in /repo (restored afterwards)"""
import subprocess, sys, os
name = sys.argv[1]
trip = sys.argv[2:]
assert len(trip) % 3 == 0 and trip
assert subprocess.run(["git", "-C", "/repo", "status", "--porcelain", "--untracked-files=no"], stdout=subprocess.PIPE, text=True).stdout.strip() == "", "/repo dirty"
try:
    for k in range(0, len(trip), 3):
        f, old, new = trip[k:k + 3]
        p = os.path.join("/repo", f)
        s = open(p).read()
        n = s.count(old)
        if n != 1:
            raise SystemExit("%s: %d occurrences of %r" % (f, n, old))
        open(p, "w").write(s.replace(old, new))
    d = subprocess.run(["git", "-C", "/repo", "diff"], stdout=subprocess.PIPE, text=True).stdout
    out = os.path.join(os.path.dirname(os.path.dirname(os.path.abspath(__file__))), "mutants", name + ".diff")
    open(out, "w").write(d)
    print("wrote", out, len(d.splitlines()), "lines")
finally:
    subprocess.run(["git", "-C", "/repo", "checkout", "--", "."])
