//! C05: replay points of the configuration lattice (MC_Lattice.tla) under a watchdog, each in a
//! child process so that a hang or an abort of the code under test is data, not a tool failure
use crate::cfr::{self, verif, PlayerNum};
use crate::tree::{self, Num, Tree};
use crate::util::{self, Args, Out};
use crate::zoo;
use serde_json::{json, Value};
use std::io::Read;
use std::process::{Command, Stdio};
use std::time::{Duration, Instant};

pub fn games() -> Vec<(String, Tree)> {
    let mut v: Vec<(String, Tree)> = zoo::all()
        .into_iter()
        .filter(|(n, _)| ["pennies", "kuhn", "rare", "dominated", "lonely", "flat", "chain4", "shared4"].contains(&n.as_str()))
        .collect();
    // payoffs of magnitude 10^6: accumulated regrets reach the range where exp overflows
    let mut big = zoo::pennies();
    big.map_pay(&mut |p| Num::I(p.f() as i64 * 1_000_000));
    v.push(("pennies1e6".to_string(), big));
    let mut big = zoo::dominated();
    big.map_pay(&mut |p| Num::I(p.f() as i64 * 1_000_000));
    v.push(("dominated1e6".to_string(), big));
    // an infoset behind an own dominated action: reached in the first (uniform) iteration only, so
    // its accumulators are touched once and then only discounted (games 11 and 12)
    let t = |p: i64| Tree::T { pay: Num::I(p) };
    let node = |pl: u8, info: &str, kids: Vec<(&str, Tree)>| Tree::P {
        pl,
        info: info.to_string(),
        kids: kids.into_iter().map(|(a, t)| tree::PKid { a: a.to_string(), t }).collect(),
    };
    v.push(("forgotten".to_string(), node(1, "top", vec![("good", t(1)), ("bad", node(1, "deep", vec![("a", t(-1)), ("b", t(-2))]))])));
    v.push((
        "forgotten2".to_string(),
        node(2, "top", vec![
            ("good", node(1, "x", vec![("l", t(-1)), ("r", t(-2))])),
            ("bad", node(2, "deep", vec![("a", t(3)), ("b", t(4)), ("c", node(1, "y", vec![("l", t(5)), ("r", t(6))]))])),
        ]),
    ));
    // no decision at all (games 13 and 14): only chance, forced moves and terminals
    v.push(("nodecision".to_string(), Tree::C { ci: "c".into(), kids: vec![tree::CKid { w: Num::I(1), t: t(1) }, tree::CKid { w: Num::I(3), t: t(-2) }] }));
    v.push(("forced".to_string(), node(1, "only1", vec![("go", node(2, "only2", vec![("go", t(3))]))])));
    // game 15: one opponent infoset shared by all tasks of a pass (lock contention)
    v.push(("contended8".to_string(), zoo::contended(8)));
    // game 16: one chance infoset met TWICE on one path (accepted by from_root: same probabilities; the sampled methods
    // reuse the draw) with decisions in between and below
    let coin = |a: Tree, b: Tree| Tree::C { ci: "c".into(), kids: vec![tree::CKid { w: Num::I(1), t: a }, tree::CKid { w: Num::I(1), t: b }] };
    v.push((
        "nested-chance".to_string(),
        coin(
            node(1, "a", vec![("x", coin(node(2, "q", vec![("l", t(2)), ("r", t(-1))]), t(-1))), ("y", t(0))]),
            node(2, "q2", vec![("l", coin(t(1), t(-3))), ("r", t(1))]),
        ),
    ));
    v
}

fn conv(e: &Value) -> Value {
    match e["t"].as_str().unwrap() {
        "pinf" => json!(["pinf"]),
        "ninf" => json!(["ninf"]),
        _ => json!(["q", e["v"][0], e["v"][1]]),
    }
}

fn threads(sym: &str) -> usize {
    match sym {
        "max3p1" => usize::MAX / 3 + 1,
        "max" => usize::MAX,
        n => n.parse().unwrap(),
    }
}

fn threshold(sym: &str) -> f64 {
    match sym {
        "neg" => -1.0,
        "zero" => 0.0,
        "tiny" => 1e-300,
        "pinf" => f64::INFINITY,
        _ => f64::NAN,
    }
}

/// run one point in this (child) process and print the observation
fn ctor_val(sym: &str) -> f64 {
    match sym {
        "neg" => -1.0,
        "zero" => 0.0,
        "one" => 1.0,
        "two" => 2.0,
        "nan" => f64::NAN,
        "pinf" => f64::INFINITY,
        _ => f64::NEG_INFINITY,
    }
}

pub fn child(args: &Args) {
    let case: Value = serde_json::from_str(args.get("case")).unwrap();
    if let Some(c) = case.get("ctor") {
        // the constructor family: does RegretParams::new panic?
        let v = |k: &str| ctor_val(c[k].as_str().unwrap());
        let (a, b, g, w) = (v("a"), v("b"), v("g"), v("w"));
        let res = util::catch(move || ::cfr::RegretParams::new(a, b, g, w));
        println!("{}", json!({"outcome": if res.is_ok() { "ok" } else { "panic" }, "ctor": true}));
        return;
    }
    let list = games();
    let (_, t) = &list[case["game"].as_u64().unwrap() as usize - 1];
    let preset = case["preset"].as_str().unwrap();
    let par = match preset {
        "tuple" => Some(cfr::params(&json!({"a": conv(&case["par"]["a"]), "b": conv(&case["par"]["b"]),
            "g": conv(&case["par"]["g"]), "w": conv(&case["par"]["w"])}))),
        "none" => None,
        name => Some(cfr::params(&cfr::preset(name))),
    };
    let meth = cfr::method(case["method"].as_str().unwrap());
    // ("max": no limit - the largest budget there is)
    let budget = if case["budget"].as_str() == Some("max") { u64::MAX } else { case["budget"].as_u64().unwrap() };
    let thr = threshold(case["thr"].as_str().unwrap());
    let k = threads(case["threads"].as_str().unwrap());
    let game = tree::build(t).expect("zoo game");
    verif::reset();
    verif::set_draw_seed(Some(case["seed"].as_u64().unwrap_or(1)));
    // the call is made twice in this process (same Game, same calling thread): what the first call leaves behind - in
    // the Game, in the calling thread, in a thread pool - must not change the verdict of the second.  Moderate thread
    // counts only (the huge ones are about the documented error, and cost seconds each)
    if k != 1 && k <= 64 {
        verif::set_draw_seed(Some(case["seed"].as_u64().unwrap_or(1)));
        let first = util::catch(std::panic::AssertUnwindSafe(|| game.solve(meth, budget, thr, k, par.clone()).map(|_| ())));
        let kind = |r: &Result<Result<(), ::cfr::SolveError>, String>| match r {
            Err(_) => "panic".to_string(),
            Ok(Err(e)) => format!("{e:?}"),
            Ok(Ok(())) => "ok".to_string(),
        };
        verif::set_draw_seed(Some(case["seed"].as_u64().unwrap_or(1)));
        let second = util::catch(std::panic::AssertUnwindSafe(|| game.solve(meth, budget, thr, k, par.clone()).map(|_| ())));
        if kind(&first) != kind(&second) {
            println!("{}", json!({"outcome": format!("second call on the same thread: {} after {}", kind(&second), kind(&first))}));
            return;
        }
    }
    verif::set_draw_seed(Some(case["seed"].as_u64().unwrap_or(1)));
    let res = util::catch(std::panic::AssertUnwindSafe(|| game.solve(meth, budget, thr, k, par)));
    let obs = match res {
        Err(msg) => json!({"outcome": "panic", "what": msg}),
        Ok(Err(e)) => json!({"outcome": format!("{e:?}")}),
        Ok(Ok((strat, bound))) => {
            let dense = strat.verif_dense();
            let dump = game.verif_dump();
            let mut bad: Vec<Value> = Vec::new();
            for pl in 0..2 {
                let mut at = 0;
                for info in dump.infos[pl].iter() {
                    let v = &dense[pl][at..at + info.actions.len()];
                    at += info.actions.len();
                    let ok = v.iter().all(|p| p.is_finite() && *p >= 0.0) && (v.iter().sum::<f64>() - 1.0).abs() < 1e-9;
                    if !ok {
                        bad.push(json!({"player": pl + 1, "infoset": info.infoset, "probs": v.iter().map(|x| format!("{x}")).collect::<Vec<_>>()}));
                    }
                }
            }
            let b = [bound.player_regret_bound(PlayerNum::One), bound.player_regret_bound(PlayerNum::Two)];
            json!({"outcome": "ok", "bad_infosets": bad, "bounds": b.iter().map(|x| format!("{x}")).collect::<Vec<_>>(),
                "bounds_ok": b.iter().all(|x| !x.is_nan() && *x >= 0.0),
                "bounds_inf": b.iter().map(|x| x.is_infinite()).collect::<Vec<_>>()})
        }
    };
    println!("{obs}");
}

fn run_child(exe: &std::path::Path, case: &Value, watchdog: Duration) -> (Option<std::process::ExitStatus>, String) {
    let mut child = Command::new(exe)
        .args(["child", "lattice", "--case", &case.to_string()])
        .stdout(Stdio::piped())
        .stderr(Stdio::null())
        .spawn()
        .expect("spawn child");
    let start = Instant::now();
    let status = loop {
        match child.try_wait().unwrap() {
            Some(st) => break Some(st),
            None if start.elapsed() > watchdog => {
                let _ = child.kill();
                let _ = child.wait();
                break None;
            }
            None => std::thread::sleep(Duration::from_millis(2)),
        }
    };
    let mut text = String::new();
    if let Some(mut so) = child.stdout.take() {
        let _ = so.read_to_string(&mut text);
    }
    (status, text)
}

pub fn replay(args: &Args) {
    let cases = util::read_ndjson(args.get("exp"));
    let mut out = Out::create(args.get("out"));
    let exe = std::env::current_exe().unwrap();
    let watchdog = Duration::from_secs(args.num("watchdog", 30));
    let mut confirmed_hangs = 0;
    for row in cases.iter() {
        let id = row["id"].as_i64().unwrap();
        let case = &row["exp"];
        // a point that does not return within the watchdog is run once more with four times the time before it is
        // called a hang (a loaded machine must not produce an alarm); after two confirmed hangs the verdict of the run
        // is settled and further points are not retried
        let (mut status, mut text) = run_child(&exe, case, watchdog);
        if status.is_none() && confirmed_hangs < 2 {
            (status, text) = run_child(&exe, case, watchdog * 4);
            if status.is_none() {
                confirmed_hangs += 1;
            }
        }
        let mut bad = Vec::new();
        match status {
            None => bad.push(json!({"class": "hang", "what": "solve did not return within the watchdog"})),
            Some(st) if !st.success() => bad.push(json!({"class": "crash", "what": "process died", "status": format!("{st:?}")})),
            Some(_) => {
                let obs: Value = serde_json::from_str(text.trim().lines().last().unwrap_or("null")).unwrap_or(Value::Null);
                let outcome = obs["outcome"].as_str().unwrap_or("?");
                let verdicts: Vec<&str> = case["verdict"].as_array().unwrap().iter().map(|v| v.as_str().unwrap()).collect();
                if obs["ctor"].as_bool() == Some(true) {
                    if !verdicts.contains(&outcome) {
                        bad.push(json!({"class": "constructor", "what": "RegretParams::new does not panic exactly as documented", "observed": outcome, "specified": verdicts}));
                    }
                } else if outcome == "panic" {
                    bad.push(json!({"class": "panic", "what": "solve panicked", "observed": obs["what"]}));
                } else if !verdicts.contains(&outcome) {
                    bad.push(json!({"class": "verdict", "what": "returned neither normally nor the documented error", "observed": outcome, "specified": verdicts}));
                } else if outcome == "ok" {
                    if !obs["bad_infosets"].as_array().unwrap().is_empty() {
                        bad.push(json!({"class": "profile", "what": "an infoset does not carry a probability distribution", "observed": obs["bad_infosets"]}));
                    }
                    if obs["bounds_ok"].as_bool() != Some(true) {
                        bad.push(json!({"class": "bound", "what": "a bound is negative or NaN", "observed": obs["bounds"]}));
                    }
                    let inf = case["infinite"].as_bool().unwrap();
                    if obs["bounds_inf"].as_array().unwrap().iter().any(|b| b.as_bool() != Some(inf)) {
                        bad.push(json!({"class": "bound", "what": "bound infinite iff no iteration ran does not hold", "observed": obs["bounds"]}));
                    }
                }
            }
        }
        if bad.is_empty() {
            out.line(&json!({"id": id, "status": "ok", "nontrivial": true}));
        } else {
            out.line(&json!({"id": id, "status": "violation", "mismatch": bad}));
        }
    }
}
