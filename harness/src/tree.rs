//! Raw game trees: the JSON shape shared with spec/Game.tla, conversion into the library's
//! `IntoGameNode`, and a seeded generator of valid (perfect recall) games.
use crate::rng::Rng;
use cfr::{Game, GameError, GameNode, IntoGameNode, PlayerNum};
use serde::{Deserialize, Serialize};
use std::collections::BTreeMap;

/// A number as it appears in a case file: an integer, a special token, or (harness internal
/// only, never shown to TLC) a float.
#[derive(Clone, Debug, Serialize, Deserialize, PartialEq)]
#[serde(untagged)]
pub enum Num {
    I(i64),
    F(f64),
    S(String),
}

impl Num {
    pub fn f(&self) -> f64 {
        match self {
            Num::I(i) => *i as f64,
            Num::F(f) => *f,
            Num::S(s) => match s.as_str() {
                "nan" => f64::NAN,
                "inf" => f64::INFINITY,
                "-inf" => f64::NEG_INFINITY,
                "tiny" => f64::MIN_POSITIVE,
                "huge" => 1e300,
                "max" => f64::MAX,
                other => panic!("unknown number token {other}"),
            },
        }
    }
}

#[derive(Clone, Debug, Serialize, Deserialize, PartialEq)]
pub struct CKid {
    pub w: Num,
    pub t: Tree,
}

#[derive(Clone, Debug, Serialize, Deserialize, PartialEq)]
pub struct PKid {
    pub a: String,
    pub t: Tree,
}

#[derive(Clone, Debug, Serialize, Deserialize, PartialEq)]
#[serde(tag = "k")]
pub enum Tree {
    T { pay: Num },
    C { ci: String, kids: Vec<CKid> },
    P { pl: u8, info: String, kids: Vec<PKid> },
}

impl IntoGameNode for Tree {
    type PlayerInfo = String;
    type Action = String;
    type ChanceInfo = String;
    type Outcomes = Vec<(f64, Tree)>;
    type Actions = Vec<(String, Tree)>;

    fn into_game_node(self) -> GameNode<Self> {
        match self {
            Tree::T { pay } => GameNode::Terminal(pay.f()),
            Tree::C { ci, kids } => GameNode::Chance(
                if ci == "none" { None } else { Some(ci) },
                kids.into_iter().map(|k| (k.w.f(), k.t)).collect(),
            ),
            Tree::P { pl, info, kids } => GameNode::Player(
                if pl == 1 {
                    PlayerNum::One
                } else {
                    PlayerNum::Two
                },
                info,
                kids.into_iter().map(|k| (k.a, k.t)).collect(),
            ),
        }
    }
}

pub type G = Game<String, String>;

pub fn build(tree: &Tree) -> Result<G, GameError> {
    Game::from_root(tree.clone())
}

impl Tree {
    /// the same game with every chance weight multiplied by 2^e (exact in binary floating point, subnormal results
    /// included): the probabilities - weight / total - are unchanged
    pub fn scale_weights(&self, e: i32) -> Tree {
        match self {
            Tree::T { .. } => self.clone(),
            Tree::C { ci, kids } => Tree::C {
                ci: ci.clone(),
                kids: kids.iter().map(|k| CKid { w: Num::F(k.w.f() * 2f64.powi(e / 2) * 2f64.powi(e - e / 2)), t: k.t.scale_weights(e) }).collect(),
            },
            Tree::P { pl, info, kids } => Tree::P { pl: *pl, info: info.clone(), kids: kids.iter().map(|k| PKid { a: k.a.clone(), t: k.t.scale_weights(e) }).collect() },
        }
    }

    pub fn count(&self) -> usize {
        match self {
            Tree::T { .. } => 1,
            Tree::C { kids, .. } => 1 + kids.iter().map(|k| k.t.count()).sum::<usize>(),
            Tree::P { kids, .. } => 1 + kids.iter().map(|k| k.t.count()).sum::<usize>(),
        }
    }

    pub fn depth(&self) -> usize {
        match self {
            Tree::T { .. } => 0,
            Tree::C { kids, .. } => 1 + kids.iter().map(|k| k.t.depth()).max().unwrap_or(0),
            Tree::P { kids, .. } => 1 + kids.iter().map(|k| k.t.depth()).max().unwrap_or(0),
        }
    }

    /// multi-action infosets of a player: name -> action names (first occurrence)
    pub fn infos(&self, pl: u8, out: &mut BTreeMap<String, Vec<String>>) {
        match self {
            Tree::T { .. } => {}
            Tree::C { kids, .. } => kids.iter().for_each(|k| k.t.infos(pl, out)),
            Tree::P { pl: p, info, kids } => {
                if *p == pl && kids.len() >= 2 {
                    out.entry(info.clone())
                        .or_insert_with(|| kids.iter().map(|k| k.a.clone()).collect());
                }
                kids.iter().for_each(|k| k.t.infos(pl, out));
            }
        }
    }

    /// single-action infosets of a player: name -> action
    pub fn singles(&self, pl: u8, out: &mut BTreeMap<String, String>) {
        match self {
            Tree::T { .. } => {}
            Tree::C { kids, .. } => kids.iter().for_each(|k| k.t.singles(pl, out)),
            Tree::P { pl: p, info, kids } => {
                if *p == pl && kids.len() == 1 {
                    out.entry(info.clone()).or_insert_with(|| kids[0].a.clone());
                }
                kids.iter().for_each(|k| k.t.singles(pl, out));
            }
        }
    }

    pub fn map_pay(&mut self, f: &mut impl FnMut(&Num) -> Num) {
        match self {
            Tree::T { pay } => *pay = f(pay),
            Tree::C { kids, .. } => kids.iter_mut().for_each(|k| k.t.map_pay(f)),
            Tree::P { kids, .. } => kids.iter_mut().for_each(|k| k.t.map_pay(f)),
        }
    }

    pub fn payoffs(&self, out: &mut Vec<f64>) {
        match self {
            Tree::T { pay } => out.push(pay.f()),
            Tree::C { kids, .. } => kids.iter().for_each(|k| k.t.payoffs(out)),
            Tree::P { kids, .. } => kids.iter().for_each(|k| k.t.payoffs(out)),
        }
    }

    /// (payoff range, number of multi-action infosets, largest action count)
    pub fn stats(&self) -> (f64, usize, usize) {
        let mut pays = Vec::new();
        self.payoffs(&mut pays);
        let max = pays.iter().cloned().fold(f64::NEG_INFINITY, f64::max);
        let min = pays.iter().cloned().fold(f64::INFINITY, f64::min);
        let mut one = BTreeMap::new();
        let mut two = BTreeMap::new();
        self.infos(1, &mut one);
        self.infos(2, &mut two);
        let a = one
            .values()
            .chain(two.values())
            .map(|v| v.len())
            .max()
            .unwrap_or(1);
        (max - min, one.len() + two.len(), a)
    }
}

/// integer profile weights: per player, infoset name -> weights (all infosets listed)
pub type Profile = [BTreeMap<String, Vec<i64>>; 2];

/// the named form handed to `from_named`
/// the same named profile with every several-action infoset given in TWO items (its first action, later the rest, other
/// infosets in between): the documentation puts no restriction on the order or grouping of the items
pub fn named_split(tree: &Tree, prof: &Profile) -> [Vec<(String, Vec<(String, f64)>)>; 2] {
    named(tree, prof).map(|side| {
        let mut first = Vec::new();
        let mut rest = Vec::new();
        for (info, acts) in side {
            if acts.len() >= 2 {
                first.push((info.clone(), acts[..1].to_vec()));
                rest.push((info, acts[1..].to_vec()));
            } else {
                first.push((info, acts));
            }
        }
        first.extend(rest);
        first
    })
}

pub fn named(tree: &Tree, prof: &Profile) -> [Vec<(String, Vec<(String, f64)>)>; 2] {
    let mut res: [Vec<(String, Vec<(String, f64)>)>; 2] = [Vec::new(), Vec::new()];
    for pl in 0..2 {
        let mut infos = BTreeMap::new();
        tree.infos(pl as u8 + 1, &mut infos);
        for (info, acts) in infos.iter() {
            let w = &prof[pl][info];
            res[pl].push((
                info.clone(),
                acts.iter()
                    .cloned()
                    .zip(w.iter().map(|x| *x as f64))
                    .collect(),
            ));
        }
        let mut singles = BTreeMap::new();
        tree.singles(pl as u8 + 1, &mut singles);
        for (info, act) in singles.iter() {
            if !infos.contains_key(info) {
                res[pl].push((info.clone(), vec![(act.clone(), 1.0)]));
            }
        }
    }
    res
}

pub struct GenCfg {
    pub max_depth: usize,
    pub max_nodes: usize,
    pub max_pure: u64,
    pub max_infos: usize,
    pub max_actions: usize,
    pub pay_lo: i64,
    pub pay_hi: i64,
    pub max_weight: i64,
    pub dyadic: bool,
    pub degenerate: f64,
    pub chance_infosets: bool,
    /// allow a chance infoset label to repeat along one path
    pub chance_repeat: bool,
    pub obs_classes: u64,
}

impl Default for GenCfg {
    fn default() -> Self {
        GenCfg {
            max_depth: 4,
            max_nodes: 40,
            max_pure: 200,
            max_infos: 5,
            max_actions: 3,
            pay_lo: -5,
            pay_hi: 5,
            max_weight: 3,
            dyadic: false,
            degenerate: 0.1,
            chance_infosets: true,
            chance_repeat: false,
            obs_classes: 2,
        }
    }
}

struct GenState {
    /// per player: infoset label -> action names
    infos: [BTreeMap<String, Vec<String>>; 2],
    /// chance infoset label -> weights
    chance: BTreeMap<String, Vec<i64>>,
    nodes: usize,
    fresh: usize,
}

/// Generate a valid perfect-recall game.  An infoset label is a function of (player, own history
/// of (infoset, action) pairs, an observation class), so all nodes of an infoset share the own
/// history: perfect recall including the action holds by construction.
pub fn gen_tree(rng: &mut Rng, cfg: &GenCfg) -> Tree {
    loop {
        let mut st = GenState {
            infos: [BTreeMap::new(), BTreeMap::new()],
            chance: BTreeMap::new(),
            nodes: 0,
            fresh: 0,
        };
        let hist = [String::new(), String::new()];
        let tree = gen_rec(rng, cfg, &mut st, 0, &hist, &mut Vec::new());
        let pure = |m: &BTreeMap<String, Vec<String>>| -> u64 {
            m.values().map(|v| v.len() as u64).product()
        };
        if st.nodes <= cfg.max_nodes
            && st.infos[0].len() <= cfg.max_infos
            && st.infos[1].len() <= cfg.max_infos
            && pure(&st.infos[0]) <= cfg.max_pure
            && pure(&st.infos[1]) <= cfg.max_pure
            && st.infos[0].len() + st.infos[1].len() >= 1
        {
            return tree;
        }
    }
}

fn gen_rec(
    rng: &mut Rng,
    cfg: &GenCfg,
    st: &mut GenState,
    depth: usize,
    hist: &[String; 2],
    chance_path: &mut Vec<String>,
) -> Tree {
    st.nodes += 1;
    let stop = depth >= cfg.max_depth
        || st.nodes > cfg.max_nodes
        || (depth >= 1 && rng.chance(0.15 + 0.1 * depth as f64));
    if stop {
        return Tree::T {
            pay: Num::I(rng.range(cfg.pay_lo, cfg.pay_hi)),
        };
    }
    let kind = rng.below(10);
    if kind < 3 {
        // chance node
        let single = rng.chance(cfg.degenerate);
        let (label, weights) = if single {
            ("none".to_string(), vec![rng.range(1, cfg.max_weight)])
        } else if cfg.chance_infosets && rng.chance(0.5) {
            let cands: Vec<String> = (0..2).map(|i| format!("c{i}")).collect();
            let label = rng.pick(&cands).clone();
            if !cfg.chance_repeat && chance_path.contains(&label) {
                ("none".to_string(), gen_weights(rng, cfg))
            } else {
                let w = st
                    .chance
                    .entry(label.clone())
                    .or_insert_with(|| gen_weights(rng, cfg))
                    .clone();
                (label, w)
            }
        } else {
            ("none".to_string(), gen_weights(rng, cfg))
        };
        if label != "none" {
            chance_path.push(label.clone());
        }
        let kids = weights
            .iter()
            .map(|w| CKid {
                w: Num::I(*w),
                t: gen_rec(rng, cfg, st, depth + 1, hist, chance_path),
            })
            .collect();
        if label != "none" {
            chance_path.pop();
        }
        Tree::C { ci: label, kids }
    } else {
        let pl = if rng.chance(0.5) { 1u8 } else { 2u8 };
        let pi = pl as usize - 1;
        if rng.chance(cfg.degenerate) {
            // single-action node: own namespace, fixed action
            let label = format!("s{}", rng.below(2));
            let kids = vec![PKid {
                a: "only".to_string(),
                t: gen_rec(rng, cfg, st, depth + 1, hist, chance_path),
            }];
            return Tree::P {
                pl,
                info: label,
                kids,
            };
        }
        let obs = rng.below(cfg.obs_classes);
        let label = format!("{}|{}", hist[pi], obs);
        let short = match st.infos[pi].get(&label) {
            Some(_) => label.clone(),
            None => label.clone(),
        };
        let acts = st.infos[pi]
            .entry(short.clone())
            .or_insert_with(|| {
                let n = rng.range(2, cfg.max_actions as i64) as usize;
                (0..n).map(|i| format!("a{i}")).collect()
            })
            .clone();
        st.fresh += 1;
        let kids = acts
            .iter()
            .map(|a| {
                let mut h = hist.clone();
                h[pi] = format!("{}{}.{};", hist[pi], obs, a);
                PKid {
                    a: a.clone(),
                    t: gen_rec(rng, cfg, st, depth + 1, &h, chance_path),
                }
            })
            .collect();
        Tree::P {
            pl,
            info: short,
            kids,
        }
    }
}

fn gen_weights(rng: &mut Rng, cfg: &GenCfg) -> Vec<i64> {
    if cfg.dyadic {
        match rng.below(3) {
            0 => vec![1, 1],
            1 => vec![1, 3],
            _ => vec![1, 1, 2],
        }
    } else {
        let n = rng.range(2, 3) as usize;
        (0..n).map(|_| rng.range(1, cfg.max_weight)).collect()
    }
}

/// Rename the (long, history-shaped) infoset labels to short ones "p<k>"
pub fn shorten(tree: &mut Tree) {
    let mut maps: [BTreeMap<String, String>; 2] = [BTreeMap::new(), BTreeMap::new()];
    fn rec(t: &mut Tree, maps: &mut [BTreeMap<String, String>; 2]) {
        match t {
            Tree::T { .. } => {}
            Tree::C { kids, .. } => kids.iter_mut().for_each(|k| rec(&mut k.t, maps)),
            Tree::P { pl, info, kids } => {
                if kids.len() >= 2 {
                    let m = &mut maps[*pl as usize - 1];
                    let n = m.len();
                    let short = m
                        .entry(info.clone())
                        .or_insert_with(|| format!("i{n}"))
                        .clone();
                    *info = short;
                }
                kids.iter_mut().for_each(|k| rec(&mut k.t, maps));
            }
        }
    }
    rec(tree, &mut maps);
}

/// a seeded integer profile: `style` 0 pure, 1 sparse, 2 full support
pub fn gen_profile(rng: &mut Rng, tree: &Tree, style: u64, dyadic: bool) -> Profile {
    let mut prof: Profile = [BTreeMap::new(), BTreeMap::new()];
    for pl in 0..2 {
        let mut infos = BTreeMap::new();
        tree.infos(pl as u8 + 1, &mut infos);
        for (info, acts) in infos {
            let n = acts.len();
            let mut w = vec![0i64; n];
            match style {
                0 => w[rng.below(n as u64) as usize] = 1,
                1 => {
                    for x in w.iter_mut() {
                        *x = if rng.chance(0.5) { rng.range(1, 3) } else { 0 };
                    }
                    if w.iter().all(|x| *x == 0) {
                        w[rng.below(n as u64) as usize] = 1;
                    }
                }
                _ => {
                    for x in w.iter_mut() {
                        *x = rng.range(1, 4);
                    }
                }
            }
            if dyadic {
                // make the total a power of two
                let total: i64 = w.iter().sum();
                let mut target = 1;
                while target < total {
                    target *= 2;
                }
                let ix = w.iter().position(|x| *x > 0).unwrap();
                w[ix] += target - total;
            }
            prof[pl].insert(info, w);
        }
    }
    prof
}
