//! C06 / C07 / C10: record passes of the (parallel) solvers for Trace_Par.tla and compare k threads
//! with one thread
use crate::cfr::{self, verif, PlayerNum, METHODS, PRESETS};
use crate::rng::Rng;
use crate::tree::{self, GenCfg, Num, PKid, Tree};
use crate::util::{self, Args, Out};
use crate::zoo;
use cfr::verif::{DumpNode, Event, Site};
use serde_json::{json, Value};

/// a perfect-information game from a preorder word of child counts; owners alternate with depth
/// unless `owners` says otherwise; some internal nodes become chance nodes
pub fn shape_game(word: &[usize], rng: &mut Rng, chance: bool) -> Tree {
    fn rec(word: &[usize], at: &mut usize, depth: usize, rng: &mut Rng, chance: bool) -> Tree {
        let c = word[*at];
        let id = *at;
        *at += 1;
        if c == 0 {
            return Tree::T { pay: Num::I(rng.range(-5, 5)) };
        }
        if chance && rng.chance(0.25) {
            return Tree::C {
                ci: format!("c{}", id % 3 + 10 * c),
                kids: (0..c).map(|j| tree::CKid { w: Num::I(1 + (j as i64 % 2)), t: rec(word, at, depth + 1, rng, chance) }).collect(),
            };
        }
        let pl = if rng.chance(0.7) { (depth % 2) as u8 + 1 } else { 2 - (depth % 2) as u8 };
        Tree::P {
            pl,
            info: format!("n{id}"),
            kids: (0..c).map(|j| PKid { a: format!("a{j}"), t: rec(word, at, depth + 1, rng, chance) }).collect(),
        }
    }
    rec(word, &mut 0, 0, rng, chance)
}

/// a random valid word with internal nodes of 2..4 children and about `n` nodes
pub fn random_word(rng: &mut Rng, n: usize) -> Vec<usize> {
    let mut word = Vec::new();
    let mut open = 1usize;
    while open > 0 {
        let room = n.saturating_sub(word.len() + open);
        let c = if room >= 2 && rng.chance(0.55) { 2 + rng.below(3.min(room as u64 - 1)) as usize } else { 0 };
        word.push(c);
        open = open - 1 + c;
    }
    word
}

/// replace integer payoffs by generic ones (six significant digits, no ties)
pub fn generic_payoffs(t: &mut Tree, rng: &mut Rng) {
    t.map_pay(&mut |_| Num::F(((rng.unit() * 10.0 - 5.0) * 1e5).round() / 1e5));
}

pub fn corpus(seed: u64, n: u64) -> Vec<(String, Tree)> {
    let mut games: Vec<(String, Tree)> = zoo::all()
        .into_iter()
        .filter(|(name, _)| ["kuhn", "shared16", "shared8", "chain8", "rare", "dominated", "coins", "liars"].contains(&name.as_str()))
        .collect();
    games.push(("contended5".to_string(), zoo::contended(5)));
    let mut rng = Rng::new(seed ^ 0x9a7);
    for id in 0..n {
        let mut r = rng.fork();
        if id % 2 == 0 {
            let size = [9, 13, 21, 35, 60][(id / 2 % 5) as usize];
            let word = random_word(&mut r, size);
            if word.len() >= 3 {
                games.push((format!("shape{id}"), shape_game(&word, &mut r, id % 4 == 0)));
            }
        } else {
            let cfg = GenCfg { max_depth: 3 + (id % 3) as usize, max_nodes: 60, max_infos: 8, max_pure: 100000, ..GenCfg::default() };
            let mut t = tree::gen_tree(&mut r, &cfg);
            tree::shorten(&mut t);
            games.push((format!("rand{id}"), t));
        }
    }
    // level-regular trees: the frontier cut is non-trivial for most targets
    fn regular(b: usize, d: usize, word: &mut Vec<usize>) {
        if d == 0 {
            word.push(0);
        } else {
            word.push(b);
            for _ in 0..b {
                regular(b, d - 1, word);
            }
        }
    }
    for (j, (b, d)) in [(2usize, 4usize), (2, 5), (3, 3), (4, 3), (2, 6), (3, 4)].into_iter().enumerate() {
        if (j as u64) < n / 2 + 2 {
            let mut word = Vec::new();
            regular(b, d, &mut word);
            let mut r = rng.fork();
            games.push((format!("regular{b}x{d}"), shape_game(&word, &mut r, j % 2 == 1)));
        }
    }
    for (_, t) in games.iter_mut() {
        cfr::label_chance(t);
    }
    games
}

/// the presets and five tuples outside them: forgetting positive regret (discount factor exactly zero),
/// forgetting negative regret with the arg-min fallback, negative exponents with a finite softmax
pub const PARAM_SETS: [&str; 10] = ["vanilla", "lcfr", "cfr_plus", "dcfr", "dcfr_prune", "forget-pos", "forget-both", "argmin", "softmax", "steep"];

pub fn param_set(name: &str) -> Value {
    match name {
        "forget-pos" => json!({"a": ["ninf"], "b": ["q", 1, 1], "g": ["q", 1, 1], "w": ["q", 0, 1]}),
        "forget-both" => json!({"a": ["ninf"], "b": ["ninf"], "g": ["q", 0, 1], "w": ["pinf"]}),
        "argmin" => json!({"a": ["q", 1, 1], "b": ["ninf"], "g": ["q", 2, 1], "w": ["ninf"]}),
        "softmax" => json!({"a": ["q", -1, 1], "b": ["q", -1, 1], "g": ["q", 1, 2], "w": ["q", -1, 1]}),
        // average-strategy exponent 1000: the accumulated weights are of the order 1e-97 after four iterations (the
        // returned average is their quotient and must not depend on their size)
        "steep" => json!({"a": ["q", 3, 2], "b": ["q", 0, 1], "g": ["q", 1000, 1], "w": ["pinf"]}),
        preset => cfr::preset(preset),
    }
}

fn site_name(s: Site) -> &'static str {
    match s {
        Site::Chance => "C",
        Site::One => "P1",
        Site::Two => "P2",
    }
}

/// one solve with all hooks on; returns the pass events and the result
#[allow(clippy::type_complexity)]
fn traced(t: &Tree, meth: &str, preset: &str, k: usize, iters: u64, seed: u64, yields: u64) -> Result<(Value, Vec<Value>, [Vec<f64>; 2], [f64; 2]), String> {
    let t2 = t.clone();
    let (meth, preset) = (meth.to_string(), preset.to_string());
    util::catch(move || {
        let game = tree::build(&cfr::unlabelled(&t2)).map_err(|e| format!("{e:?}"))?;
        let dump = game.verif_dump();
        verif::reset();
        verif::set_draw_seed(Some(seed));
        verif::set_record(true, true);
        verif::set_yield_seed(yields);
        let res = game.solve(cfr::method(&meth), iters, 0.0, k, Some(cfr::params(&param_set(&preset))));
        let log = verif::take_log();
        verif::reset();
        let (strat, bound) = res.map_err(|e| format!("{e:?}"))?;
        let n = dump.nodes.len();
        let mut kids = Vec::new();
        let mut kind = Vec::new();
        let mut pl = Vec::new();
        let mut info = Vec::new();
        for node in dump.nodes.iter() {
            match node {
                DumpNode::Terminal(_) => {
                    kids.push(Vec::<usize>::new());
                    kind.push("T");
                    pl.push(0);
                    info.push(0);
                }
                DumpNode::Chance(ci, ks) => {
                    kids.push(ks.iter().map(|x| x + 1).collect());
                    kind.push("C");
                    pl.push(0);
                    info.push(ci + 1);
                }
                DumpNode::Player(p, i, ks) => {
                    kids.push(ks.iter().map(|x| x + 1).collect());
                    kind.push("P");
                    pl.push(p + 1);
                    info.push(i + 1);
                }
            }
        }
        let gev = json!({"e": "game", "method": meth, "k": k, "target": 3 * k, "nodes": n, "kids": kids, "kind": kind, "pl": pl, "info": info,
            "decl": cfr::declared(&t2, &dump)});
        // cut the log into passes
        let mut passes = Vec::new();
        let mut draws: Vec<Value> = Vec::new();
        let mut entered: Vec<usize> = Vec::new();
        let mut hits: Vec<usize> = Vec::new();
        let mut tasks: Vec<usize> = Vec::new();
        let mut locks: Vec<bool> = Vec::new();
        let (mut queue, mut work): (Vec<usize>, Vec<usize>) = (Vec::new(), Vec::new());
        let external = meth == "External";
        let mut half = 0usize;
        let mut flush = |q: usize, draws: &mut Vec<Value>, entered: &mut Vec<usize>, hits: &mut Vec<usize>, tasks: &mut Vec<usize>,
                         locks: &mut Vec<bool>, queue: &mut Vec<usize>, work: &mut Vec<usize>| {
            entered.sort();
            hits.sort();
            tasks.sort();
            passes.push(json!({"e": "pass", "q": q, "draws": draws, "queue": queue, "work": work, "entered": entered,
                "hits": hits, "tasks": tasks, "locks": locks}));
            draws.clear();
            entered.clear();
            hits.clear();
            tasks.clear();
            locks.clear();
            queue.clear();
            work.clear();
        };
        for ev in log.iter() {
            match ev {
                Event::Draw(site, i, _, _, ix, _) => draws.push(json!({"site": site_name(*site), "info": i + 1, "ix": ix + 1})),
                Event::Frontier(q, w) => {
                    queue = q.iter().map(|x| x + 1).collect();
                    work = w.iter().map(|x| x + 1).collect();
                }
                Event::Task(nid) => tasks.push(nid + 1),
                Event::Visit(nid, cached, _) => {
                    if *cached {
                        hits.push(nid + 1)
                    } else {
                        entered.push(nid + 1)
                    }
                }
                Event::Lock(_, _, ok) => locks.push(*ok),
                Event::PassEnd(_, p) => {
                    if external {
                        flush(p + 1, &mut draws, &mut entered, &mut hits, &mut tasks, &mut locks, &mut queue, &mut work);
                        half += 1;
                    } else if k >= 2 {
                        flush(0, &mut draws, &mut entered, &mut hits, &mut tasks, &mut locks, &mut queue, &mut work);
                    }
                }
                Event::IterEnd(..) => {
                    if !external && k == 1 {
                        flush(0, &mut draws, &mut entered, &mut hits, &mut tasks, &mut locks, &mut queue, &mut work);
                    }
                }
                _ => {}
            }
        }
        let _ = half;
        Ok((gev, passes, strat.verif_dense(), [bound.player_regret_bound(PlayerNum::One), bound.player_regret_bound(PlayerNum::Two)]))
    })
    .and_then(|r| r)
}

/// one solve with a regret threshold, only the iteration ends recorded
#[allow(clippy::type_complexity)]
fn thresholded(t: &Tree, meth: &str, preset: &str, k: usize, iters: u64, thr: f64, seed: u64) -> Result<(Vec<[f64; 2]>, [Vec<f64>; 2], [f64; 2]), String> {
    let t2 = t.clone();
    let (meth, preset) = (meth.to_string(), preset.to_string());
    util::catch(move || {
        let game = tree::build(&cfr::unlabelled(&t2)).map_err(|e| format!("{e:?}"))?;
        verif::reset();
        verif::set_draw_seed(Some(seed));
        verif::set_record(true, false);
        let res = game.solve(cfr::method(&meth), iters, thr, k, Some(cfr::params(&param_set(&preset))));
        let log = verif::take_log();
        verif::reset();
        let (strat, bound) = res.map_err(|e| format!("{e:?}"))?;
        let its = log.iter().filter_map(|e| if let Event::IterEnd(_, b) = e { Some(*b) } else { None }).collect();
        Ok((its, strat.verif_dense(), [bound.player_regret_bound(PlayerNum::One), bound.player_regret_bound(PlayerNum::Two)]))
    })
    .and_then(|r| r)
}

/// the same on a thread of its own under a watchdog (a budget of u64::MAX ends only through the threshold)
#[allow(clippy::type_complexity)]
fn thresholded_watched(t: &Tree, meth: &str, preset: &str, k: usize, iters: u64, thr: f64, seed: u64, secs: u64) -> Option<Result<(Vec<[f64; 2]>, [Vec<f64>; 2], [f64; 2]), String>> {
    let (tx, rx) = std::sync::mpsc::channel();
    let (t2, meth, preset) = (t.clone(), meth.to_string(), preset.to_string());
    std::thread::spawn(move || {
        let _ = tx.send(thresholded(&t2, &meth, &preset, k, iters, thr, seed));
    });
    rx.recv_timeout(std::time::Duration::from_secs(secs)).ok()
}

/// thresholds that separate the per-player bounds of the one-thread run: midpoints of consecutive distinct values
/// of {bound of either player, total bound} over the iterations, kept at a relative distance of 1e-4 from each
/// (several threads move a bound by rounding only).  These are the values at which a stop decision taken on anything
/// but the two bounds of ONE completed iteration shows
fn separating_thresholds(its: &[[f64; 2]], want: usize) -> Vec<f64> {
    let mut vals: Vec<f64> = its.iter().flat_map(|b| [b[0], b[1]]).filter(|x| x.is_finite() && *x > 0.0).collect();
    vals.sort_by(|a, b| a.partial_cmp(b).unwrap());
    vals.dedup();
    let mut mids: Vec<f64> = vals.windows(2).filter(|w| w[1] > w[0] * (1.0 + 1e-3)).map(|w| 0.5 * (w[0] + w[1])).collect();
    // prefer thresholds at which the one-thread run stops strictly inside the budget
    let stops = |r: f64| its.iter().position(|b| f64::max(b[0], b[1]) < r);
    mids.retain(|r| stops(*r).map_or(false, |t| t + 1 < its.len() || t > 0));
    let step = (mids.len() / want.max(1)).max(1);
    mids.into_iter().step_by(step).take(want).collect()
}

fn max_diff(a: &[Vec<f64>; 2], b: &[Vec<f64>; 2]) -> f64 {
    let mut d: f64 = 0.0;
    for pl in 0..2 {
        for (x, y) in a[pl].iter().zip(b[pl].iter()) {
            // (f64::max drops a NaN: a NaN probability must make the difference NaN)
            if (x - y).is_nan() {
                return f64::NAN;
            }
            d = d.max((x - y).abs());
        }
    }
    d
}

pub fn record(args: &Args) {
    let seed = args.num("seed", 1);
    let n = args.num("n", 20);
    let thorough = args.get_or("thorough", "0") == "1";
    let only: Option<&str> = args.opt.get("method").map(|s| s.as_str());
    let mut out = Out::create(args.get("out"));
    let mut cmp = Out::create(args.get("cmp"));
    let games = corpus(seed, n);
    let ks: &[usize] = if thorough { &[2, 3, 4, 5, 6, 8, 12, 16] } else { &[2, 3, 4, 8, 16] };
    let budgets: &[u64] = if thorough { &[1, 2, 3, 4, 10] } else { &[4] };
    let reps = if thorough { 3 } else { 1 };
    let mut runs = 0usize;
    let mut nontrivial = 0usize;
    let mut passes_total = 0usize;
    let mut rng = Rng::new(seed ^ 0x6a7);
    let mut hung = false;
    'games: for (gi, (name, t)) in games.iter().enumerate() {
        // generic payoffs wherever two implementation runs are compared (tie sensitivity)
        let mut tg = t.clone();
        generic_payoffs(&mut tg, &mut rng);
        for (mi, meth) in METHODS.iter().enumerate() {
            if only.map_or(false, |o| o != *meth) {
                continue;
            }
            let preset = PARAM_SETS[(gi + mi) % 10];
            // budgets 0 and 1: nothing / one iteration accumulated (the conversion of empty or barely filled accumulators
            // into a profile is code of its own in the several-thread path)
            for tiny in [0u64, 1] {
                let sd = seed.wrapping_mul(31).wrapping_add(gi as u64);
                if let Ok(one) = thresholded(&tg, meth, preset, 1, tiny, 0.0, sd) {
                    for &k in &[2usize, 3] {
                        match thresholded(&tg, meth, preset, k, tiny, 0.0, sd) {
                            Err(msg) => cmp.line(&json!({"status": "violation", "game": name, "method": meth, "k": k, "T": tiny,
                                "mismatch": [{"class": "panic", "what": "solve failed or panicked with several threads", "observed": msg}]})),
                            Ok((_, dense, bounds)) => {
                                runs += 1;
                                let d = max_diff(&dense, &one.1);
                                let same_bounds = (0..2).all(|p| bounds[p] == one.2[p] || (bounds[p] - one.2[p]).abs() <= 1e-9 * one.2[p].abs().max(1.0));
                                let nan = dense.iter().any(|side| side.iter().any(|x| x.is_nan()));
                                if d > 1e-9 || nan || !same_bounds {
                                    cmp.line(&json!({"status": "violation", "game": name, "method": meth, "preset": preset, "k": k, "T": tiny,
                                        "mismatch": [{"class": "differs", "what": "result with several threads differs from one thread (budget 0 / 1)",
                                            "max_probability_difference": if d.is_nan() { -1.0 } else { d }, "nan": nan}], "seed": sd}));
                                } else {
                                    cmp.line(&json!({"status": "ok", "game": name, "method": meth, "k": k, "T": tiny, "nontrivial": true}));
                                }
                            }
                        }
                    }
                }
            }
            // A regret exponent of -inf forgets all earlier regret: the next strategy is the normalised positive part of ONE
            // iteration's regrets, and the regret of an action played with probability one is zero up to the rounding of
            // the summation order - its sign then decides the strategy two iterations later.  Such runs are comparable
            // across thread counts for two iterations only (found by the thorough tier: a false alarm at T = 10)
            let forgetful = ["forget-pos", "forget-both", "argmin"].contains(&preset);
            for &iters in budgets {
                let iters = if forgetful { iters.min(2) } else { iters };
                let sd = seed.wrapping_mul(31).wrapping_add(gi as u64);
                let base = match traced(&tg, meth, preset, 1, iters, sd, 0) {
                    Ok(b) => b,
                    Err(msg) => {
                        cmp.line(&json!({"status": "violation", "game": name, "method": meth, "k": 1, "mismatch": [{"class": "panic", "what": "solve failed or panicked", "observed": msg}]}));
                        continue;
                    }
                };
                // the single threaded passes are validated too (sequential visits, draws)
                out.line(&base.0);
                base.1.iter().for_each(|p| out.line(p));
                passes_total += base.1.len();
                // thresholded runs (the stop decision must be the one-thread one): a longer budget, thresholds that
                // separate the players' bounds of the one-thread run, two thread counts
                if iters == *budgets.last().unwrap() && !forgetful {
                    let long = if thorough { 30 } else { 12 };
                    if let Ok((its, _, _)) = thresholded(&tg, meth, preset, 1, long, 0.0, sd) {
                        for thr in separating_thresholds(&its, if thorough { 8 } else { 3 }) {
                            let one = match thresholded(&tg, meth, preset, 1, long, thr, sd) {
                                Ok(x) => x,
                                Err(_) => continue,
                            };
                            // the budget u64::MAX ("no limit") against the same threshold: one thread stops where the bounded
                            // run stopped; k threads must return the same
                            if one.0.len() < long as usize && !hung {
                                for &k in &[1usize, 2] {
                                    match thresholded_watched(&tg, meth, preset, k, u64::MAX, thr, sd, 120) {
                                        None => {
                                            hung = true;
                                            cmp.line(&json!({"status": "violation", "game": name, "method": meth, "k": k, "T": "u64::MAX", "r": thr,
                                                "mismatch": [{"class": "unlimited-hang", "what": "no return within 120 s with the unlimited budget although the bounded run crosses the threshold"}], "tree": tg}));
                                            // the abandoned solve keeps running (and keeps writing into the event log) on its own
                                            // thread: nothing recorded from here on could be trusted, and the verdict is settled
                                            break 'games;
                                        }
                                        Some(Err(msg)) => cmp.line(&json!({"status": "violation", "game": name, "method": meth, "k": k, "T": "u64::MAX", "r": thr,
                                            "mismatch": [{"class": "panic", "what": "solve with the unlimited budget failed or panicked", "observed": msg}], "tree": tg})),
                                        Some(Ok((kits, dense, bounds))) => {
                                            runs += 1;
                                            let d = max_diff(&dense, &one.1);
                                            let db = (0..2).map(|p| (bounds[p] - one.2[p]).abs() / one.2[p].abs().max(1.0)).fold(0.0, f64::max);
                                            if kits.len() != one.0.len() || d > 1e-9 || db > 1e-9 || d.is_nan() || db.is_nan() {
                                                cmp.line(&json!({"status": "violation", "game": name, "method": meth, "preset": preset, "k": k, "T": "u64::MAX", "r": thr,
                                                    "mismatch": [{"class": "unlimited-differs", "what": "run with the unlimited budget differs from the bounded run that crosses the threshold",
                                                        "iterations_bounded": one.0.len(), "iterations_unlimited": kits.len(),
                                                        "max_probability_difference": d, "max_bound_difference": db}], "tree": tg, "seed": sd}));
                                            } else {
                                                cmp.line(&json!({"status": "ok", "game": name, "method": meth, "k": k, "T": "u64::MAX", "r": thr, "nontrivial": true}));
                                            }
                                        }
                                    }
                                }
                            }
                            for &k in &[2usize, ks[(gi + mi) % ks.len()].max(3)] {
                                match thresholded(&tg, meth, preset, k, long, thr, sd) {
                                    Err(msg) => cmp.line(&json!({"status": "violation", "game": name, "method": meth, "k": k, "T": long, "r": thr,
                                        "mismatch": [{"class": "panic", "what": "thresholded solve failed or panicked with several threads", "observed": msg}], "tree": tg})),
                                    Ok((kits, dense, bounds)) => {
                                        runs += 1;
                                        let d = max_diff(&dense, &one.1);
                                        let db = (0..2).map(|p| (bounds[p] - one.2[p]).abs() / one.2[p].abs().max(1.0)).fold(0.0, f64::max);
                                        if kits.len() != one.0.len() || d > 1e-9 || db > 1e-9 || d.is_nan() || db.is_nan() {
                                            cmp.line(&json!({"status": "violation", "game": name, "method": meth, "preset": preset, "k": k, "T": long, "r": thr,
                                                "mismatch": [{"class": "threshold-differs", "what": "thresholded run with several threads differs from one thread",
                                                    "iterations_one_thread": one.0.len(), "iterations_k_threads": kits.len(),
                                                    "max_probability_difference": d, "max_bound_difference": db}], "tree": tg, "seed": sd}));
                                        } else {
                                            cmp.line(&json!({"status": "ok", "game": name, "method": meth, "k": k, "T": long, "r": thr,
                                                "nontrivial": one.0.len() < long as usize}));
                                        }
                                    }
                                }
                            }
                        }
                    }
                }
                for &k in ks {
                    for rep in 0..reps {
                        let yields = if rep == 0 { 0 } else { seed.wrapping_add(rep as u64 * 977) | 1 };
                        match traced(&tg, meth, preset, k, iters, sd, yields) {
                            Err(msg) => cmp.line(&json!({"status": "violation", "game": name, "method": meth, "k": k,
                                "mismatch": [{"class": "panic", "what": "solve failed or panicked with several threads", "observed": msg}], "tree": tg})),
                            Ok((gev, passes, dense, bounds)) => {
                                runs += 1;
                                let cut = passes.iter().any(|p| p["queue"].as_array().map_or(false, |q| !(q.len() == 1 && q[0] == 1) && !q.is_empty()));
                                if cut {
                                    nontrivial += 1;
                                }
                                out.line(&gev);
                                passes.iter().for_each(|p| out.line(p));
                                passes_total += passes.len();
                                let d = max_diff(&dense, &base.2);
                                let db = (0..2).map(|p| (bounds[p] - base.3[p]).abs() / base.3[p].abs().max(1.0)).fold(0.0, f64::max);
                                if d > 1e-9 || db > 1e-9 || d.is_nan() || db.is_nan() {
                                    cmp.line(&json!({"status": "violation", "game": name, "method": meth, "preset": preset, "k": k, "T": iters,
                                        "mismatch": [{"class": "differs", "what": "result with several threads differs from one thread",
                                            "max_probability_difference": d, "max_bound_difference": db}], "tree": tg, "seed": sd}));
                                } else {
                                    cmp.line(&json!({"status": "ok", "game": name, "method": meth, "k": k, "T": iters, "nontrivial": cut}));
                                }
                            }
                        }
                    }
                }
            }
        }
    }
    // large games (sizes that cross thresholds an implementation might special-case): result of k threads against one
    // thread only, no event trace
    for (gi, (name, t)) in zoo::large().iter().enumerate() {
        if hung {
            break;
        }
        let mut tg = t.clone();
        cfr::label_chance(&mut tg);
        generic_payoffs(&mut tg, &mut rng);
        for (mi, meth) in METHODS.iter().enumerate() {
            if only.map_or(false, |o| o != *meth) {
                continue;
            }
            let preset = PARAM_SETS[(gi + mi + seed as usize) % 5];
            let sd = seed.wrapping_mul(131).wrapping_add(gi as u64);
            let iters = 4;
            let Ok(one) = thresholded(&tg, meth, preset, 1, iters, 0.0, sd) else { continue };
            for &k in if thorough { &[2usize, 3, 4, 5, 7, 16][..] } else { &[2usize, 3, 4][..] } {
                match thresholded(&tg, meth, preset, k, iters, 0.0, sd) {
                    Err(msg) => cmp.line(&json!({"status": "violation", "game": name, "method": meth, "k": k, "T": iters,
                        "mismatch": [{"class": "panic", "what": "solve failed or panicked with several threads (large game)", "observed": msg}]})),
                    Ok((_, dense, bounds)) => {
                        runs += 1;
                        let d = max_diff(&dense, &one.1);
                        let db = (0..2).map(|p| (bounds[p] - one.2[p]).abs() / one.2[p].abs().max(1.0)).fold(0.0, f64::max);
                        if d > 1e-9 || db > 1e-9 || d.is_nan() || db.is_nan() {
                            cmp.line(&json!({"status": "violation", "game": name, "method": meth, "preset": preset, "k": k, "T": iters,
                                "mismatch": [{"class": "differs", "what": "result with several threads differs from one thread (large game)",
                                    "max_probability_difference": d, "max_bound_difference": db}], "seed": sd}));
                        } else {
                            cmp.line(&json!({"status": "ok", "game": name, "method": meth, "k": k, "T": iters, "nontrivial": true}));
                        }
                    }
                }
            }
        }
    }
    // a game whose infosets are shared by all parallel tasks, many threads, repeated: the accumulators under contention
    // (a lost update shows as a difference far above rounding; 50 iterations keep rounding drift below 1e-11)
    if !hung {
        let mut tg = zoo::hot();
        generic_payoffs(&mut tg, &mut rng);
        for meth in ["Full", "Sampled"] {
            if only.map_or(false, |o| o != meth) {
                continue;
            }
            let sd = seed.wrapping_mul(17).wrapping_add(3);
            let iters = 50;
            let Ok(one) = thresholded(&tg, meth, "vanilla", 1, iters, 0.0, sd) else { continue };
            let reps = if thorough { 12 } else { 4 };
            for &k in &[4usize, 5, 6] {
                for rep in 0..reps {
                    match thresholded(&tg, meth, "vanilla", k, iters, 0.0, sd) {
                        Err(msg) => cmp.line(&json!({"status": "violation", "game": "hot", "method": meth, "k": k, "T": iters,
                            "mismatch": [{"class": "panic", "what": "solve failed or panicked with several threads (hot game)", "observed": msg}]})),
                        Ok((_, dense, bounds)) => {
                            runs += 1;
                            let d = max_diff(&dense, &one.1);
                            let db = (0..2).map(|p| (bounds[p] - one.2[p]).abs() / one.2[p].abs().max(1.0)).fold(0.0, f64::max);
                            if d > 1e-9 || db > 1e-9 || d.is_nan() || db.is_nan() {
                                cmp.line(&json!({"status": "violation", "game": "hot", "method": meth, "k": k, "T": iters, "rep": rep,
                                    "mismatch": [{"class": "differs", "what": "result with several threads differs from one thread (contended infosets)",
                                        "max_probability_difference": d, "max_bound_difference": db}], "seed": sd}));
                            } else if rep == 0 {
                                cmp.line(&json!({"status": "ok", "game": "hot", "method": meth, "k": k, "T": iters, "nontrivial": true}));
                            }
                        }
                    }
                }
            }
        }
    }
    // games FULL OF EXACT TIES (matching pennies, rock-paper-scissors, all payoffs equal): after the first iteration every
    // regret is exactly zero in any order of summation, so how a tie is broken is the same deterministic rule in both
    // code paths - two iterations (all arithmetic still exact)
    if !hung {
        for (name, tg) in zoo::all().into_iter().filter(|(n, _)| ["pennies", "rps", "flat"].contains(&n.as_str())) {
            for meth in ["Full", "Sampled"] {
                if only.map_or(false, |o| o != meth) {
                    continue;
                }
                for preset in ["vanilla", "lcfr", "cfr_plus", "dcfr", "dcfr_prune"] {
                    let sd = seed.wrapping_mul(19).wrapping_add(5);
                    let iters = 2;
                    let Ok(one) = thresholded(&tg, meth, preset, 1, iters, 0.0, sd) else { continue };
                    for &k in &[2usize, 3] {
                        match thresholded(&tg, meth, preset, k, iters, 0.0, sd) {
                            Err(msg) => cmp.line(&json!({"status": "violation", "game": name, "method": meth, "k": k, "T": iters,
                                "mismatch": [{"class": "panic", "what": "solve failed or panicked with several threads (tie game)", "observed": msg}]})),
                            Ok((_, dense, bounds)) => {
                                runs += 1;
                                let d = max_diff(&dense, &one.1);
                                let db = (0..2).map(|p| (bounds[p] - one.2[p]).abs() / one.2[p].abs().max(1.0)).fold(0.0, f64::max);
                                if d > 1e-9 || db > 1e-9 || d.is_nan() || db.is_nan() {
                                    cmp.line(&json!({"status": "violation", "game": name, "method": meth, "preset": preset, "k": k, "T": iters,
                                        "mismatch": [{"class": "differs", "what": "result with several threads differs from one thread (game full of exact ties)",
                                            "max_probability_difference": d, "max_bound_difference": db}], "seed": sd}));
                                } else {
                                    cmp.line(&json!({"status": "ok", "game": name, "method": meth, "preset": preset, "k": k, "T": iters, "nontrivial": true}));
                                }
                            }
                        }
                    }
                }
            }
        }
    }
    println!("{}", json!({"runs": runs, "nontrivial_cuts": nontrivial, "passes": passes_total, "games": games.len()}));
}
