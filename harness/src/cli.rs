//! C15 / C16 / C17: abstract game documents (the data model of spec/Efg.tla), their rendering as
//! Gambit `.efg` text and JSON-DSL text, and runs of the built `cfr` binary.
use crate::rng::Rng;
use crate::tree::{Num, Tree};
use serde::{Deserialize, Serialize};
use serde_json::{json, Value};
use std::collections::BTreeMap;
use std::io::{Read, Write};
use std::process::{Command, Stdio};
use std::time::{Duration, Instant};

/// a payoff or probability literal: integer numerator over a positive denominator, or a token
/// rendered verbatim (non-finite literals of the fault catalogue)
#[derive(Clone, Debug, Serialize, Deserialize, PartialEq)]
pub struct DKid {
    pub a: String,
    /// chance probability as numerator / denominator (unused for player nodes)
    #[serde(default)]
    pub pn: i64,
    #[serde(default)]
    pub pd: i64,
    pub t: DNode,
}

#[derive(Clone, Debug, Serialize, Deserialize, PartialEq)]
#[serde(tag = "k")]
pub enum DNode {
    /// terminal: outcome id (>= 1) and the two payoffs (in units of 1/scale)
    #[serde(rename = "t")]
    T { out: i64, pays: Vec<i64> },
    /// chance node: chance infoset id, optional outcome (0 = none; pays empty = defined elsewhere)
    #[serde(rename = "c")]
    C { iset: i64, out: i64, pays: Vec<i64>, kids: Vec<DKid> },
    /// decision node: player, infoset id, optional infoset name ("" = unnamed), optional outcome
    #[serde(rename = "p")]
    P { pl: i64, iset: i64, name: String, out: i64, pays: Vec<i64>, kids: Vec<DKid> },
}

#[derive(Clone, Debug, Serialize, Deserialize, PartialEq)]
pub struct Doc {
    /// number of players declared in the header
    pub players: i64,
    /// payoffs are integers in units of 1/scale
    pub scale: i64,
    /// fault catalogue: the first payoff of this outcome id is written as the literal 1e999 (0 = none)
    #[serde(default)]
    pub huge: i64,
    pub root: DNode,
}

fn gcd(a: i64, b: i64) -> i64 {
    if b == 0 {
        a.abs()
    } else {
        gcd(b, a % b)
    }
}

/// How a raw tree is written down as a Gambit document: the constant sum, which part of the payoffs
/// sits on interior nodes, shared outcomes, unnamed infosets, probability spellings, action order.
pub struct Style {
    /// constant sum in units of 1/scale
    pub sum: i64,
    pub scale: i64,
    pub interior: f64,
    pub share: f64,
    pub unnamed: f64,
    pub by_reference: f64,
    pub shuffle: bool,
}

struct DocState {
    isets: [BTreeMap<String, (i64, bool)>; 2],
    emitted: [std::collections::BTreeSet<String>; 2],
    chance: BTreeMap<String, i64>,
    next_chance: i64,
    next_out: i64,
    /// outcome id by payoff pair (terminals) for sharing
    shared: BTreeMap<(i64, i64), i64>,
    /// interior outcomes already written with payoffs: id -> pays
    interior: Vec<(i64, Vec<i64>)>,
}

/// shown infoset name -> label in the raw tree, per player
pub fn shown_to_label(tree: &Tree, doc: &Doc) -> [BTreeMap<String, String>; 2] {
    fn rec(t: &Tree, n: &DNode, shown: &[BTreeMap<i64, String>; 2], out: &mut [BTreeMap<String, String>; 2]) {
        match (t, n) {
            (Tree::C { kids, .. }, DNode::C { kids: dk, .. }) => {
                // chance outcomes may have been shuffled: match by name o<j>
                for k in dk.iter() {
                    let j: usize = k.a[1..].parse().unwrap();
                    rec(&kids[j].t, &k.t, shown, out);
                }
            }
            (Tree::P { pl, info, kids }, DNode::P { iset, kids: dk, .. }) => {
                out[*pl as usize - 1].insert(shown[*pl as usize - 1][iset].clone(), info.clone());
                for k in dk.iter() {
                    let kid = kids.iter().find(|x| x.a == k.a).unwrap();
                    rec(&kid.t, &k.t, shown, out);
                }
            }
            _ => {}
        }
    }
    let shown = shown_names(doc);
    let mut out = [BTreeMap::new(), BTreeMap::new()];
    rec(tree, &doc.root, &shown, &mut out);
    out
}

/// render a raw zero-sum tree (integer payoffs to player one) as an abstract Gambit document
pub fn to_doc(tree: &Tree, style: &Style, rng: &mut Rng) -> Doc {
    let mut st = DocState {
        isets: [BTreeMap::new(), BTreeMap::new()],
        emitted: [Default::default(), Default::default()],
        chance: BTreeMap::new(),
        next_chance: 1,
        next_out: 1,
        shared: BTreeMap::new(),
        interior: Vec::new(),
    };
    let root = doc_rec(tree, style, rng, &mut st, [0, 0]);
    Doc { players: 2, scale: style.scale, huge: 0, root }
}

fn doc_rec(t: &Tree, style: &Style, rng: &mut Rng, st: &mut DocState, above: [i64; 2]) -> DNode {
    // an interior outcome: some payoff pair given here and subtracted from every terminal below
    let mut here = |st: &mut DocState, rng: &mut Rng| -> (i64, Vec<i64>, [i64; 2]) {
        if rng.chance(style.interior) {
            if !st.interior.is_empty() && rng.chance(style.by_reference) {
                // reuse an outcome defined at another node, by number only
                let (id, pays) = rng.pick(&st.interior).clone();
                (id, Vec::new(), [pays[0], pays[1]])
            } else {
                let d = [rng.range(-3, 3) * style.scale, rng.range(-3, 3) * style.scale];
                let id = st.next_out;
                st.next_out += 1;
                st.interior.push((id, d.to_vec()));
                (id, d.to_vec(), d)
            }
        } else {
            (0, Vec::new(), [0, 0])
        }
    };
    match t {
        Tree::T { pay } => {
            // own payoffs: one = x + S/2, two = -x + S/2 (in units of 1/scale; sum and scale chosen so that it is integral)
            let x = pay.f() as i64 * style.scale;
            let one = x + style.sum / 2 - above[0];
            let two = -x + style.sum - style.sum / 2 - above[1];
            let id = if rng.chance(style.share) {
                *st.shared.entry((one, two)).or_insert_with(|| {
                    let id = st.next_out;
                    st.next_out += 1;
                    id
                })
            } else {
                let id = st.next_out;
                st.next_out += 1;
                id
            };
            DNode::T { out: id, pays: vec![one, two] }
        }
        Tree::C { ci, kids } => {
            let (out, pays, d) = here(st, rng);
            let iset = if ci == "none" {
                let id = st.next_chance;
                st.next_chance += 1;
                id
            } else {
                match st.chance.get(ci) {
                    Some(id) => *id,
                    None => {
                        let id = st.next_chance;
                        st.next_chance += 1;
                        st.chance.insert(ci.clone(), id);
                        id
                    }
                }
            };
            let total: i64 = kids.iter().map(|k| k.w.f() as i64).sum();
            let mut out_kids: Vec<DKid> = kids
                .iter()
                .enumerate()
                .map(|(j, k)| {
                    let w = k.w.f() as i64;
                    let g = gcd(w, total);
                    // spell the probability reduced, unreduced, or as it is
                    let (pn, pd) = match rng.below(3) {
                        0 => (w / g, total / g),
                        1 => (w * 2, total * 2),
                        _ => (w, total),
                    };
                    DKid { a: format!("o{j:02}"), pn, pd, t: doc_rec(&k.t, style, rng, st, [above[0] + d[0], above[1] + d[1]]) }
                })
                .collect();
            if style.shuffle && ci == "none" {
                // outcomes of an unshared chance node may come in any order
                for i in (1..out_kids.len()).rev() {
                    out_kids.swap(i, rng.below(i as u64 + 1) as usize);
                }
            }
            DNode::C { iset, out, pays, kids: out_kids }
        }
        Tree::P { pl, info, kids } => {
            let (out, pays, d) = here(st, rng);
            let pi = *pl as usize - 1;
            let n = st.isets[pi].len() as i64;
            let unnamed = rng.chance(style.unnamed);
            let (iset, is_unnamed) = *st.isets[pi].entry(info.clone()).or_insert((n + 1, unnamed));
            // a named infoset carries its name at some of its nodes only
            let seen = st.emitted[pi].contains(info);
            let name = if is_unnamed || (seen && rng.chance(0.4)) {
                String::new()
            } else {
                st.emitted[pi].insert(info.clone());
                // some names carry characters that need escaping in both formats
                match iset % 4 {
                    2 => format!("{info} \"quoted\" name"),
                    3 => format!("{info}\\back slash"),
                    _ => info.to_string(),
                }
            };
            let mut out_kids: Vec<DKid> = kids
                .iter()
                .map(|k| DKid { a: k.a.clone(), pn: 0, pd: 0, t: doc_rec(&k.t, style, rng, st, [above[0] + d[0], above[1] + d[1]]) })
                .collect();
            if style.shuffle {
                for i in (1..out_kids.len()).rev() {
                    out_kids.swap(i, rng.below(i as u64 + 1) as usize);
                }
            }
            DNode::P { pl: *pl as i64, iset, name, out, pays, kids: out_kids }
        }
    }
}

/// the name the solver's output uses for an infoset of the document: the given name, else the number
pub fn shown_names(doc: &Doc) -> [BTreeMap<i64, String>; 2] {
    fn rec(n: &DNode, out: &mut [BTreeMap<i64, String>; 2]) {
        match n {
            DNode::T { .. } => {}
            DNode::C { kids, .. } => kids.iter().for_each(|k| rec(&k.t, out)),
            DNode::P { pl, iset, name, kids, .. } => {
                if (1..=2).contains(pl) {
                    let e = out[*pl as usize - 1].entry(*iset).or_insert_with(String::new);
                    if e.is_empty() && !name.is_empty() {
                        *e = name.clone();
                    }
                }
                kids.iter().for_each(|k| rec(&k.t, out));
            }
        }
    }
    let mut out = [BTreeMap::new(), BTreeMap::new()];
    rec(&doc.root, &mut out);
    for side in out.iter_mut() {
        for (id, name) in side.iter_mut() {
            if name.is_empty() {
                *name = id.to_string();
            }
        }
    }
    out
}

thread_local! {
    /// appended to every integer payoff literal of a Gambit text (e.g. "e305": the document's payoffs in units of 1e305)
    static EFG_SUFFIX: std::cell::RefCell<String> = std::cell::RefCell::new(String::new());
}

pub fn set_efg_suffix(s: &str) {
    EFG_SUFFIX.with(|x| *x.borrow_mut() = s.to_string());
}

fn lit(x: i64, scale: i64, rng: &mut Rng) -> String {
    if scale == 1 {
        return EFG_SUFFIX.with(|s| format!("{x}{}", s.borrow()));
    }
    let g = gcd(x, scale);
    let (n, d) = (x / g, scale / g);
    if d == 1 {
        n.to_string()
    } else if (d == 2 || d == 4 || d == 5 || d == 10 || d == 1000 || d == 100 || d == 20 || d == 8) && rng.chance(0.5) {
        // an exact decimal
        let v = x as f64 / scale as f64;
        format!("{v}")
    } else {
        format!("{n}/{d}")
    }
}

/// Gambit text of the document
pub fn render_efg(doc: &Doc, rng: &mut Rng) -> String {
    fn quote(s: &str) -> String {
        format!("\"{}\"", s.replace('\\', "\\\\").replace('"', "\\\""))
    }
    fn pays(p: &[i64], scale: i64, rng: &mut Rng) -> String {
        if p.is_empty() {
            String::new()
        } else {
            let sep = if rng.chance(0.5) { ", " } else { " " };
            let huge = scale < 0;
            let scale = scale.abs();
            let mut lits: Vec<String> = p.iter().map(|x| lit(*x, scale, rng)).collect();
            if huge {
                lits[0] = "1e999".to_string();
            }
            format!(" {{ {} }}", lits.join(sep))
        }
    }
    fn rec(n: &DNode, scale: i64, rng: &mut Rng, out: &mut String) {
        // a negative scale marks the outcome whose first payoff is spoiled (see Doc::huge)
        let (scale, huge_id) = (scale % (1 << 40), scale / (1 << 40));
        let sc = |o: &i64| if huge_id != 0 && *o == huge_id { -scale } else { scale };
        let again = scale + huge_id * (1 << 40);
        match n {
            DNode::T { out: o, pays: p } => {
                out.push_str(&format!("t \"\" {o}{}\n", pays(p, sc(o), rng)));
            }
            DNode::C { iset, out: o, pays: p, kids } => {
                let acts: Vec<String> = kids
                    .iter()
                    .map(|k| {
                        let g = gcd(k.pn, k.pd);
                        let prob = if k.pd / g == 1 {
                            format!("{}", k.pn / g)
                        } else if [2, 4, 5, 8, 10, 20].contains(&(k.pd / g)) && rng.chance(0.4) {
                            format!("{}", k.pn as f64 / k.pd as f64)
                        } else {
                            format!("{}/{}", k.pn, k.pd)
                        };
                        format!("{} {prob}", quote(&k.a))
                    })
                    .collect();
                out.push_str(&format!("c \"\" {iset} {{ {} }} {o}{}\n", acts.join(" "), pays(p, sc(o), rng)));
                kids.iter().for_each(|k| rec(&k.t, again, rng, out));
            }
            DNode::P { pl, iset, name, out: o, pays: p, kids } => {
                let nm = if name.is_empty() { String::new() } else { format!(" {}", quote(name)) };
                let acts: Vec<String> = kids.iter().map(|k| quote(&k.a)).collect();
                out.push_str(&format!("p \"\" {pl} {iset}{nm} {{ {} }} {o}{}\n", acts.join(" "), pays(p, sc(o), rng)));
                kids.iter().for_each(|k| rec(&k.t, again, rng, out));
            }
        }
    }
    let players: Vec<String> = (1..=doc.players).map(|i| format!("\"P{i}\"")).collect();
    let mut out = format!("EFG 2 R \"generated\" {{ {} }}\n\"a comment\"\n\n", players.join(" "));
    rec(&doc.root, doc.scale + doc.huge * (1 << 40), rng, &mut out);
    out
}

/// JSON-DSL text of a raw tree (payoffs to player one); `f` may spoil the value before printing
pub fn render_json(tree: &Tree) -> Value {
    match tree {
        Tree::T { pay } => match pay {
            Num::I(i) => json!({"terminal": *i as f64}),
            other => json!({"terminal": other.f()}),
        },
        Tree::C { ci, kids } => {
            let mut outcomes = serde_json::Map::new();
            for (j, k) in kids.iter().enumerate() {
                outcomes.insert(format!("o{j:02}"), json!({"prob": k.w.f(), "state": render_json(&k.t)}));
            }
            if ci == "none" {
                json!({"chance": {"outcomes": outcomes}})
            } else {
                json!({"chance": {"infoset": ci, "outcomes": outcomes}})
            }
        }
        Tree::P { pl, info, kids } => {
            let mut actions = serde_json::Map::new();
            for k in kids.iter() {
                actions.insert(k.a.clone(), render_json(&k.t));
            }
            json!({"player": {"player_one": *pl == 1, "infoset": info, "actions": actions}})
        }
    }
}

pub struct RunOut {
    pub status: Option<i32>,
    pub stdout: String,
    pub stderr: String,
    pub timed_out: bool,
}

/// run the built binary; `stdin` = Some(text) feeds standard input
/// marker in a document text that is replaced by the byte 0xFF (never valid in UTF-8) when the text is written
pub const BAD_BYTE: &str = "\u{1}BADBYTE\u{1}";

pub fn raw_bytes(text: &str) -> Vec<u8> {
    let parts: Vec<&str> = text.split(BAD_BYTE).collect();
    let mut out = Vec::new();
    for (i, p) in parts.iter().enumerate() {
        if i > 0 {
            out.push(0xFF);
        }
        out.extend_from_slice(p.as_bytes());
    }
    out
}

pub fn run_cli(exe: &str, args: &[String], stdin: Option<&str>, watchdog: Duration) -> RunOut {
    let mut cmd = Command::new(exe);
    cmd.args(args).stdout(Stdio::piped()).stderr(Stdio::piped()).env("RUST_BACKTRACE", "0");
    cmd.stdin(if stdin.is_some() { Stdio::piped() } else { Stdio::null() });
    let mut child = cmd.spawn().expect("spawn cfr binary");
    if let Some(text) = stdin {
        let mut si = child.stdin.take().unwrap();
        let _ = si.write_all(&raw_bytes(text));
    }
    let start = Instant::now();
    let mut timed_out = false;
    let status = loop {
        match child.try_wait().unwrap() {
            Some(st) => break st.code(),
            None if start.elapsed() > watchdog => {
                let _ = child.kill();
                let _ = child.wait();
                timed_out = true;
                break None;
            }
            None => std::thread::sleep(Duration::from_millis(1)),
        }
    };
    let (mut so, mut se) = (String::new(), String::new());
    if let Some(mut s) = child.stdout.take() {
        let _ = s.read_to_string(&mut so);
    }
    if let Some(mut s) = child.stderr.take() {
        let _ = s.read_to_string(&mut se);
    }
    RunOut { status, stdout: so, stderr: se, timed_out }
}

/// the diagnostic category a stderr text names (the documented markers)
pub fn category(stderr: &str) -> &'static str {
    for (marker, cat) in [
        ("#json-error", "json-error"),
        ("#gambit-error", "gambit-error"),
        ("#auto-error", "auto-error"),
        ("#duplicate-infosets", "duplicate-infosets"),
        ("#constant-sum", "constant-sum"),
        ("#game-error", "game-error"),
        ("only supports two player games", "players"),
        ("non-finite payoffs", "non-finite"),
    ] {
        if stderr.contains(marker) {
            return cat;
        }
    }
    "none"
}
