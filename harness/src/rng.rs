//! splitmix64: small deterministic generator so that every run is a function of VERIF_SEED
#[derive(Clone, Debug)]
pub struct Rng(pub u64);

impl Rng {
    pub fn new(seed: u64) -> Self {
        let mut r = Rng(seed ^ 0x5851f42d4c957f2d);
        r.next();
        r
    }

    pub fn next(&mut self) -> u64 {
        self.0 = self.0.wrapping_add(0x9e3779b97f4a7c15);
        let mut z = self.0;
        z = (z ^ (z >> 30)).wrapping_mul(0xbf58476d1ce4e5b9);
        z = (z ^ (z >> 27)).wrapping_mul(0x94d049bb133111eb);
        z ^ (z >> 31)
    }

    /// uniform in 0..n
    pub fn below(&mut self, n: u64) -> u64 {
        if n == 0 {
            0
        } else {
            self.next() % n
        }
    }

    /// uniform in lo..=hi
    pub fn range(&mut self, lo: i64, hi: i64) -> i64 {
        lo + self.below((hi - lo + 1) as u64) as i64
    }

    pub fn unit(&mut self) -> f64 {
        (self.next() >> 11) as f64 / (1u64 << 53) as f64
    }

    pub fn chance(&mut self, p: f64) -> bool {
        self.unit() < p
    }

    pub fn pick<'a, T>(&mut self, xs: &'a [T]) -> &'a T {
        &xs[self.below(xs.len() as u64) as usize]
    }

    pub fn fork(&mut self) -> Rng {
        Rng::new(self.next())
    }
}
