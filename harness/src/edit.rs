//! U-edit: every single edit from a catalogue at every node of seeded valid trees (C11, C17)
use crate::rng::Rng;
use crate::tree::{self, CKid, GenCfg, Num, PKid, Tree};
use crate::util::{Args, Out};
use serde_json::json;

/// number of nodes, and access to the i-th node in preorder
fn node_mut<'a>(t: &'a mut Tree, ix: &mut usize) -> Option<&'a mut Tree> {
    if *ix == 0 {
        return Some(t);
    }
    *ix -= 1;
    match t {
        Tree::T { .. } => None,
        Tree::C { kids, .. } => {
            for k in kids.iter_mut() {
                if let Some(n) = node_mut(&mut k.t, ix) {
                    return Some(n);
                }
            }
            None
        }
        Tree::P { kids, .. } => {
            for k in kids.iter_mut() {
                if let Some(n) = node_mut(&mut k.t, ix) {
                    return Some(n);
                }
            }
            None
        }
    }
}

pub const EDITS: &[&str] = &[
    "info-other", "info-fresh", "info-single", "swap-actions", "dup-action", "drop-action", "drop-all", "owner",
    "rename-action", "w-zero", "w-neg", "w-nan", "w-inf", "w-ninf", "w-double", "ci-share", "ci-none", "pay-nan", "pay-inf",
    "wrap-single-chance", "wrap-single-action", "dup-action-apart", "dup-action-apart-all", "dup-action-all",
];

/// apply one edit at one node; None when the edit does not apply to that kind of node
pub fn apply(base: &Tree, node: usize, edit: &str, labels: &[Vec<String>; 2], clabels: &[String]) -> Option<Tree> {
    let mut t = base.clone();
    let mut ix = node;
    let n = node_mut(&mut t, &mut ix)?;
    if edit == "wrap-single-chance" {
        let inner = n.clone();
        *n = Tree::C {
            ci: clabels.first().cloned().unwrap_or("none".to_string()),
            kids: vec![CKid { w: Num::I(2), t: inner }],
        };
        return Some(t);
    }
    if edit == "wrap-single-action" {
        let inner = n.clone();
        let name = labels[0].first().cloned().unwrap_or("s0".to_string());
        *n = Tree::P {
            pl: 1,
            info: name,
            kids: vec![PKid { a: "a0".to_string(), t: inner }],
        };
        return Some(t);
    }
    if edit == "dup-action-apart-all" || edit == "dup-action-all" {
        // the same repeated action name at EVERY node of the infoset (the only rule broken is uniqueness): the first and
        // the last action (not adjacent when there are three or more), or the first two
        let (pl0, info0, len0) = match n {
            Tree::P { pl, info, kids } => (*pl, info.clone(), kids.len()),
            _ => return None,
        };
        if len0 < (if edit == "dup-action-all" { 2 } else { 3 }) {
            return None;
        }
        fn all(t: &mut Tree, pl0: u8, info0: &str, apart: bool) {
            match t {
                Tree::T { .. } => {}
                Tree::C { kids, .. } => kids.iter_mut().for_each(|k| all(&mut k.t, pl0, info0, apart)),
                Tree::P { pl, info, kids } => {
                    if *pl == pl0 && info == info0 && kids.len() >= 2 {
                        let a = kids[0].a.clone();
                        let at = if apart { kids.len() - 1 } else { 1 };
                        kids[at].a = a;
                    }
                    kids.iter_mut().for_each(|k| all(&mut k.t, pl0, info0, apart));
                }
            }
        }
        all(&mut t, pl0, &info0, edit == "dup-action-apart-all");
        return Some(t);
    }
    match n {
        Tree::P { pl, info, kids } => match edit {
            "dup-action-apart" if kids.len() >= 3 => {
                let a = kids[0].a.clone();
                kids.last_mut()?.a = a;
            }
            "info-other" => {
                let cands = &labels[*pl as usize - 1];
                let other = cands.iter().find(|l| *l != info)?;
                *info = other.clone();
            }
            "info-fresh" => *info = "fresh".to_string(),
            "info-single" if kids.len() >= 2 => *info = "s0".to_string(),
            "swap-actions" if kids.len() >= 2 => {
                let (a, b) = (kids[0].a.clone(), kids[1].a.clone());
                kids[0].a = b;
                kids[1].a = a;
            }
            "dup-action" if kids.len() >= 2 => kids[1].a = kids[0].a.clone(),
            "drop-action" if kids.len() >= 2 => {
                kids.pop();
            }
            "drop-all" => kids.clear(),
            "owner" => *pl = 3 - *pl,
            "rename-action" => kids[0].a = "zz".to_string(),
            _ => return None,
        },
        Tree::C { ci, kids } => match edit {
            "drop-all" => kids.clear(),
            "w-zero" => kids[0].w = Num::I(0),
            "w-neg" => kids.last_mut()?.w = Num::I(-2),
            "w-nan" => kids[0].w = Num::I(999001),
            "w-inf" => kids.last_mut()?.w = Num::I(999002),
            "w-ninf" => kids[0].w = Num::I(999003),
            "w-double" if kids.len() >= 2 => {
                if let Num::I(w) = kids[0].w {
                    kids[0].w = Num::I(w * 2);
                }
            }
            "ci-share" => {
                let other = clabels.iter().find(|l| *l != ci)?;
                *ci = other.clone();
            }
            "ci-none" if ci != "none" => *ci = "none".to_string(),
            _ => return None,
        },
        Tree::T { pay } => match edit {
            "pay-nan" => *pay = Num::I(999001),
            "pay-inf" => *pay = Num::I(999002),
            _ => return None,
        },
    }
    Some(t)
}

pub fn labels_of(t: &Tree) -> ([Vec<String>; 2], Vec<String>) {
    let mut labels: [Vec<String>; 2] = [Vec::new(), Vec::new()];
    for pl in 0..2 {
        let mut m = std::collections::BTreeMap::new();
        t.infos(pl as u8 + 1, &mut m);
        labels[pl] = m.keys().cloned().collect();
    }
    fn cl(t: &Tree, out: &mut Vec<String>) {
        match t {
            Tree::T { .. } => {}
            Tree::C { ci, kids } => {
                if ci != "none" && !out.contains(ci) {
                    out.push(ci.clone());
                }
                kids.iter().for_each(|k| cl(&k.t, out));
            }
            Tree::P { kids, .. } => kids.iter().for_each(|k| cl(&k.t, out)),
        }
    }
    let mut clabels = Vec::new();
    cl(t, &mut clabels);
    (labels, clabels)
}

pub fn gen(args: &Args) {
    let seed = args.num("seed", 1);
    let n = args.num("n", 10);
    let mut out = Out::create(args.get("out"));
    let mut rng = Rng::new(seed ^ 0xed17);
    let mut id = 0;
    for b in 0..n {
        let mut r = rng.fork();
        let cfg = GenCfg {
            max_depth: 3 + (b % 3) as usize,
            max_nodes: 24,
            degenerate: 0.15,
            chance_repeat: true,
            ..GenCfg::default()
        };
        let mut base = tree::gen_tree(&mut r, &cfg);
        tree::shorten(&mut base);
        let (labels, clabels) = labels_of(&base);
        id += 1;
        out.line(&json!({"id": id, "tree": base, "edit": "none", "node": 0}));
        for node in 0..base.count() {
            for edit in EDITS {
                if let Some(t) = apply(&base, node, edit, &labels, &clabels) {
                    id += 1;
                    out.line(&json!({"id": id, "tree": t, "edit": edit, "node": node}));
                }
            }
        }
    }
    // hand-made trees that break perfect recall in each of the ways the rule can be broken, and the trees that forget
    // only the own action (the specification states the verdict like for every other tree)
    for (name, t) in crate::zoo::recall_breakers() {
        id += 1;
        out.line(&json!({"id": id, "tree": t, "edit": name, "node": 0}));
    }
    for pl in [1u8, 2] {
        for deep in [false, true] {
            id += 1;
            out.line(&json!({"id": id, "tree": crate::zoo::forgot_action(pl, deep), "edit": "recall-action", "node": 0}));
        }
    }
}
