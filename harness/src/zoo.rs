//! U-zoo: hand-written adversarial families (DESIGN 3.2)
use crate::tree::{CKid, Num, PKid, Tree};

fn term(p: i64) -> Tree {
    Tree::T { pay: Num::I(p) }
}

fn player(pl: u8, info: &str, kids: Vec<(&str, Tree)>) -> Tree {
    Tree::P {
        pl,
        info: info.to_string(),
        kids: kids.into_iter().map(|(a, t)| PKid { a: a.to_string(), t }).collect(),
    }
}

fn chance(ci: &str, kids: Vec<(i64, Tree)>) -> Tree {
    Tree::C {
        ci: ci.to_string(),
        kids: kids.into_iter().map(|(w, t)| CKid { w: Num::I(w), t }).collect(),
    }
}

/// deep alternating perfect-information chain: stop (payoff) or go on
pub fn chain(depth: usize) -> Tree {
    fn rec(d: usize, depth: usize) -> Tree {
        if d == depth {
            return term(if depth % 2 == 0 { 3 } else { -3 });
        }
        let pl = (d % 2) as u8 + 1;
        let stop = ((d as i64 * 5) % 7) - 3;
        player(pl, &format!("n{d}"), vec![("stop", term(stop)), ("go", rec(d + 1, depth))])
    }
    rec(0, depth)
}

/// one infoset per player shared by k nodes behind a chance root
pub fn shared(k: usize) -> Tree {
    let kids = (0..k)
        .map(|j| {
            let j = j as i64;
            let sub = |a: i64| {
                player(2, "y", vec![("l", term((j * 3 + a) % 5 - 2)), ("r", term((j + 2 * a) % 7 - 3))])
            };
            (1, player(1, "x", vec![("a", sub(0)), ("b", sub(1))]))
        })
        .collect();
    chance("deal", kids)
}

/// a rare but decisive chance outcome (1 : 1000)
pub fn rare() -> Tree {
    chance(
        "rare",
        vec![
            (1, player(1, "x", vec![("a", term(5)), ("b", term(-5))])),
            (1000, player(1, "x", vec![("a", player(2, "y", vec![("l", term(-1)), ("r", term(1))])),
                                        ("b", player(2, "y", vec![("l", term(1)), ("r", term(-1))]))])),
        ],
    )
}

/// EXTREME magnitudes (C02): events of probability 2^-60 (below machine epsilon) whose payoffs (2^62) decide what is
/// optimal - a safe action against a bet that wins 1 almost surely and loses 2^62 otherwise; the same with the rare event
/// nested (2^-30 x 2^-30) and an opponent who picks the side of the loss
pub fn extreme() -> Vec<(String, Tree)> {
    let big = 1i64 << 62;
    let w60 = 1i64 << 60;
    let w30 = 1i64 << 30;
    let bet = chance("none", vec![(w60, term(1)), (1, term(-big))]);
    let one = player(1, "x", vec![("safe", term(0)), ("bet", bet)]);
    let inner = |sign: i64| chance("none", vec![(w30, term(1)), (1, term(sign * big))]);
    let reply = player(2, "y", vec![("l", inner(-1)), ("r", inner(1))]);
    let nested = player(1, "x", vec![("safe", term(0)), ("bet", chance("none", vec![(w30, term(1)), (1, reply)]))]);
    // the rare branch first: the order of the outcomes must not matter
    let first = player(1, "x", vec![("bet", chance("none", vec![(1, term(-big)), (w60, term(1)), (w60, term(1))])), ("safe", term(0))]);
    vec![("lottery".to_string(), one), ("nested-lottery".to_string(), nested), ("lottery-rare-first".to_string(), first)]
}

/// EXACT ZEROS (C04): games in which a sampled iteration can leave every visited infoset with identical utilities on all
/// its actions - the sampled bound is then exactly 0.0 although the profile is far from equilibrium: a 3 x 3 "claim" game
/// with a zero row and column, and matching pennies in one world of a hidden coin
pub fn exact_zeros() -> Vec<(String, Tree)> {
    let pay = [[2i64, 1, 0], [1, 2, 0], [0, 0, 0]];
    let reply = |i: usize| player(2, "y", vec![("l", term(pay[i][0])), ("m", term(pay[i][1])), ("fold", term(pay[i][2]))]);
    let claim = player(1, "x", vec![("a", reply(0)), ("b", reply(1)), ("fold", reply(2))]);
    let world = |p: [[i64; 2]; 2]| {
        let r = |i: usize| player(2, "q", vec![("l", term(p[i][0])), ("r", term(p[i][1]))]);
        player(1, "p", vec![("u", r(0)), ("d", r(1))])
    };
    let hidden = chance("none", vec![(1, world([[1, -1], [-1, 1]])), (1, world([[2, 0], [0, 0]]))]);
    vec![("claim".to_string(), claim), ("hidden-coin".to_string(), hidden)]
}

/// ... and the other end: a biased 3 x 3 game whose payoffs are small integers times 2^-1030 - every payoff, utility and
/// regret is a subnormal number (exact: 44 bits are left)
pub fn tiny_units() -> (String, Tree, f64) {
    let unit = 2f64.powi(-1030);
    let pay = [[2i64, -1, 0], [-1, 3, -2], [0, -2, 4]];
    let reply = |i: usize| Tree::P { pl: 2, info: "y".into(), kids: (0..3).map(|j| PKid { a: format!("b{j}"), t: Tree::T { pay: Num::F(pay[i][j] as f64 * unit) } }).collect() };
    let t = Tree::P { pl: 1, info: "x".into(), kids: (0..3).map(|i| PKid { a: format!("a{i}"), t: reply(i) }).collect() };
    ("tiny-units".to_string(), t, unit)
}

/// strictly dominated actions for both players
pub fn dominated() -> Tree {
    let resp = |a: i64| player(2, "y", vec![("l", term(a)), ("m", term(a + 3)), ("r", term(a - 1))]);
    player(1, "x", vec![("good", resp(1)), ("bad", resp(-2)), ("mid", resp(0))])
}

/// matching pennies
pub fn pennies() -> Tree {
    player(
        1,
        "x",
        vec![
            ("h", player(2, "y", vec![("h", term(1)), ("t", term(-1))])),
            ("t", player(2, "y", vec![("h", term(-1)), ("t", term(1))])),
        ],
    )
}

/// Kuhn poker with three cards (game value -1/18 for player one)
pub fn kuhn() -> Tree {
    let mut deals = Vec::new();
    for c1 in 0..3i64 {
        for c2 in 0..3i64 {
            if c1 == c2 {
                continue;
            }
            let win = if c1 > c2 { 1 } else { -1 };
            let p1 = format!("c{c1}");
            let p2b = format!("c{c2}b");
            let p2c = format!("c{c2}c");
            let p1cb = format!("c{c1}cb");
            let tree = player(
                1,
                &p1,
                vec![
                    ("bet", player(2, &p2b, vec![("call", term(2 * win)), ("fold", term(1))])),
                    (
                        "check",
                        player(
                            2,
                            &p2c,
                            vec![
                                ("bet", player(1, &p1cb, vec![("call", term(2 * win)), ("fold", term(-1))])),
                                ("check", term(win)),
                            ],
                        ),
                    ),
                ],
            );
            deals.push((1, tree));
        }
    }
    chance("deal", deals)
}

/// a player without any decision
pub fn lonely() -> Tree {
    chance("c", vec![(1, player(1, "x", vec![("a", term(1)), ("b", term(2)), ("c", term(-1))])), (3, term(0))])
}

/// all payoffs equal: every regret is zero
pub fn flat() -> Tree {
    player(1, "x", vec![("a", player(2, "y", vec![("l", term(1)), ("r", term(1))])), ("b", term(1))])
}

/// rock-paper-scissors-like simultaneous game (player two does not see player one's move); `w`
/// weights the payoffs so that the equilibrium mixes all three actions unevenly
pub fn rps(w: [i64; 3]) -> Tree {
    let beats = |a: usize, b: usize| -> i64 {
        if a == b {
            0
        } else if (a + 1) % 3 == b {
            -w[b]
        } else {
            w[a]
        }
    };
    let names = ["rock", "paper", "scissors"];
    player(
        1,
        "one",
        (0..3)
            .map(|a| (names[a], player(2, "two", (0..3).map(|b| (names[b], term(beats(a, b)))).collect())))
            .collect(),
    )
}

/// one infoset of player two spanning every subtree below two moves of player one: with several threads
/// the tasks of a pass all meet at that infoset's accumulator
pub fn contended(n: usize) -> Tree {
    let names: Vec<String> = (0..n).map(|j| format!("m{j}")).collect();
    let leaf = |a: usize, b: usize, c: usize| term(((a * 7 + b * 3 + c * 5) % 9) as i64 - 4);
    let p2 = |a: usize, b: usize| player(2, "blind", vec![("l", leaf(a, b, 0)), ("m", leaf(a, b, 1)), ("r", leaf(a, b, 2))]);
    let second = |a: usize| {
        Tree::P { pl: 1, info: format!("after{a}"), kids: (0..n).map(|b| PKid { a: names[b].clone(), t: p2(a, b) }).collect() }
    };
    Tree::P { pl: 1, info: "first".to_string(), kids: (0..n).map(|a| PKid { a: names[a].clone(), t: second(a) }).collect() }
}

/// independent chance events declared WITHOUT an infoset and with identical weights, two of them on one path: player
/// one sees the first coin and takes a sure 2 or bets 3 : 0 that the second coin matches it (the bet is worth 1.5 because
/// the coins are independent - it would be worth 3 if both nodes followed one draw); below "tails" a third fair coin and
/// a 1 : 3 coin decide among player two's tables
pub fn coins() -> Tree {
    let t = |x: i64| Tree::T { pay: Num::I(x) };
    let coin = |a: Tree, b: Tree| Tree::C { ci: "none".into(), kids: vec![CKid { w: Num::I(1), t: a }, CKid { w: Num::I(1), t: b }] };
    let guess = |info: &str, hit_first: bool| Tree::P {
        pl: 1,
        info: info.into(),
        kids: vec![
            PKid { a: "safe".into(), t: t(2) },
            PKid { a: "bet".into(), t: if hit_first { coin(t(3), t(0)) } else { coin(t(0), t(3)) } },
        ],
    };
    let table = |info: &str, x: i64| Tree::P { pl: 2, info: info.into(), kids: vec![PKid { a: "l".into(), t: t(x) }, PKid { a: "r".into(), t: t(-x) }] };
    let skew = Tree::C { ci: "none".into(), kids: vec![CKid { w: Num::I(1), t: table("u", 2) }, CKid { w: Num::I(3), t: table("v", -1) }] };
    coin(guess("heads", true), coin(guess("tails", false), skew))
}

/// liar's dice with one die of two faces each (the repository's benchmark game, scaled down): chance deals the
/// four pairs of dice, the players bid (quantity, face) in increasing order or call "liar"; a player knows the own
/// die and the bids so far
pub fn liars() -> Tree {
    const BIDS: [(u8, u8); 4] = [(1, 1), (1, 2), (2, 1), (2, 2)];
    fn play(dice: [u8; 2], hist: &mut Vec<usize>) -> Tree {
        let mover = hist.len() % 2; // 0 = player one
        let mut kids = Vec::new();
        if let Some(&last) = hist.last() {
            let (q, f) = BIDS[last];
            let count = dice.iter().filter(|d| **d == f).count() as u8;
            let bidder = (hist.len() - 1) % 2;
            let bidder_wins = count >= q;
            let one_wins = (bidder == 0) == bidder_wins;
            kids.push(PKid { a: "liar".into(), t: Tree::T { pay: Num::I(if one_wins { 1 } else { -1 }) } });
        }
        let from = hist.last().map_or(0, |l| l + 1);
        for b in from..BIDS.len() {
            hist.push(b);
            kids.push(PKid { a: format!("b{}{}", BIDS[b].0, BIDS[b].1), t: play(dice, hist) });
            hist.pop();
        }
        let h: String = hist.iter().map(|b| b.to_string()).collect();
        Tree::P { pl: mover as u8 + 1, info: format!("d{}h{}", dice[mover], h), kids }
    }
    let mut kids = Vec::new();
    for a in 1..=2u8 {
        for b in 1..=2u8 {
            kids.push(CKid { w: Num::I(1), t: play([a, b], &mut Vec::new()) });
        }
    }
    Tree::C { ci: "none".into(), kids }
}

/// NOT a game of the documented class: the player `pl` forgets the OWN ACTION taken at "x" (the two "z" nodes share an
/// infoset although they follow different actions of the same earlier infoset); `deep` puts a move of the other
/// player in between.  Every other rule holds
pub fn forgot_action(pl: u8, deep: bool) -> Tree {
    let z = |x: i64| Tree::P { pl, info: "z".into(), kids: vec![PKid { a: "c".into(), t: term(x) }, PKid { a: "d".into(), t: term(-x) }] };
    let below = |x: i64| {
        if deep {
            Tree::P { pl: 3 - pl, info: "m".into(), kids: vec![PKid { a: "l".into(), t: z(x) }, PKid { a: "r".into(), t: term(0) }] }
        } else {
            z(x)
        }
    };
    Tree::P { pl, info: "x".into(), kids: vec![PKid { a: "a".into(), t: below(1) }, PKid { a: "b".into(), t: below(2) }] }
}

/// many infosets for one player: chance deals one of `n` cards to player one (one infoset per card: fold or play), player
/// two (who does not see the card) calls or folds
pub fn cards(n: usize) -> Tree {
    let kids = (0..n)
        .map(|j| {
            let v = (j as i64 * 7) % 11 - 5;
            let reply = player(2, "q", vec![("call", term(v)), ("fold", term(1))]);
            (1, player(1, &format!("c{j}"), vec![("fold", term(-1)), ("play", reply)]))
        })
        .collect();
    chance("deal", kids)
}

/// a "hot" game for the parallel solvers: three rounds of a simultaneous 3 x 3 move in which each player remembers the
/// own actions only, so every infoset has many nodes spread over all parallel tasks (shared accumulators under contention)
pub fn hot() -> Tree {
    fn rec(round: usize, h1: &mut Vec<usize>, h2: &mut Vec<usize>, acc: i64) -> Tree {
        if round == 3 {
            return term(acc % 7 - 3);
        }
        let i1: String = h1.iter().map(|x| x.to_string()).collect();
        let mut kids1 = Vec::new();
        for a in 0..3 {
            h1.push(a);
            let i2: String = h2.iter().map(|x| x.to_string()).collect();
            let mut kids2 = Vec::new();
            for b in 0..3 {
                h2.push(b);
                kids2.push(PKid { a: format!("b{b}"), t: rec(round + 1, h1, h2, acc * 3 + ((a * 2 + b * 5 + round) % 4) as i64 + 1) });
                h2.pop();
            }
            kids1.push(PKid { a: format!("a{a}"), t: Tree::P { pl: 2, info: format!("q{i2}"), kids: kids2 } });
            h1.pop();
        }
        Tree::P { pl: 1, info: format!("p{i1}"), kids: kids1 }
    }
    rec(0, &mut Vec::new(), &mut Vec::new(), 0)
}

/// WIDTH: an infoset with 300 actions and a chance node with 300 outcomes (indices beyond u8, long weight vectors)
pub fn wide() -> Tree {
    let n = 300usize;
    let reply = |j: i64| player(2, "q", vec![("l", term(j % 7 - 3)), ("r", term((j * 3) % 5 - 2))]);
    let lottery = Tree::C { ci: "none".into(), kids: (0..n).map(|j| CKid { w: Num::I((j % 5) as i64 + 1), t: reply(j as i64) }).collect() };
    Tree::P {
        pl: 1,
        info: "w".into(),
        kids: (0..n).map(|j| PKid { a: format!("a{j:03}"), t: if j == 0 { lottery.clone() } else { term((j as i64 * 11) % 13 - 6) } }).collect(),
    }
}

/// a WIDE node of player two (40 actions) below a chance move and a choice of player one whose best action depends on
/// the value of that node
pub fn wide_two() -> Tree {
    let reply = |c: i64| Tree::P { pl: 2, info: "y".into(), kids: (0..40).map(|j| PKid { a: format!("b{j:02}"), t: term(2 + (j * 7 + c * 3) % 5) }).collect() };
    let first = |c: i64| player(1, "x", vec![("out", term(1)), ("in", reply(c))]);
    chance("coin", vec![(1, first(0)), (2, first(1))])
}

/// games whose size crosses thresholds an implementation might special-case (64 / 1024 infosets of one player, counts
/// that are not multiples of the thread count or of 32)
/// a complete binary tree of `depth` levels of player-one decisions (2^depth - 1 infosets, ALL of them visited in every
/// pass that updates player one, whatever is sampled), each leaf a reply of player two (one infoset)
pub fn ptree(depth: usize) -> Tree {
    fn rec(level: usize, depth: usize, path: u64) -> Tree {
        if level == depth {
            let v = (path as i64 * 5) % 13 - 6;
            return player(2, "q", vec![("l", term(v)), ("r", term((v * 3) % 7))]);
        }
        player(1, &format!("n{level}_{path}"), vec![("a", rec(level + 1, depth, path * 2)), ("b", rec(level + 1, depth, path * 2 + 1))])
    }
    rec(0, depth, 0)
}

pub fn large() -> Vec<(String, Tree)> {
    vec![("ptree6".to_string(), ptree(6)), ("chain130".to_string(), chain(130)), ("cards67".to_string(), cards(67)), ("cards1025".to_string(), cards(1025)), ("wide300".to_string(), wide()), ("wide40two".to_string(), wide_two())]
}

/// a labelled chance infoset with three unequal outcomes met at two different nodes (the probabilities of one chance
/// infoset are matched position by position)
pub fn two_dice() -> Tree {
    let die = |x: i64| chance("die", vec![(1, term(x)), (2, term(-x)), (3, term(x - 2))]);
    player(1, "x", vec![("a", die(3)), ("b", player(2, "y", vec![("l", die(1)), ("r", term(0))]))])
}

/// trees that break perfect recall (and nothing else) in every way the rule can be broken: the two nodes of the infoset
/// "x" of player `pl` follow (a) an own decision and no own decision, in both visiting orders, (b) two different own
/// infosets, (c) two different actions of one own infoset; each also with a move of the other player in between
pub fn recall_breakers() -> Vec<(String, Tree)> {
    let mut v = Vec::new();
    for pl in [1u8, 2] {
        let x = |p: i64| player(pl, "x", vec![("c", term(p)), ("d", term(-p))]);
        let via_other = |t: Tree| player(3 - pl, "o", vec![("l", t), ("r", term(0))]);
        let wrap = |deep: bool, t: Tree| if deep { via_other(t) } else { t };
        for deep in [false, true] {
            // (a) below an own decision first, then without one - and the other way round
            let below = player(pl, "y", vec![("a", wrap(deep, x(1))), ("b", term(2))]);
            v.push((format!("recall-some-none-p{pl}-{deep}"), chance("c", vec![(1, below.clone()), (1, x(3))])));
            v.push((format!("recall-none-some-p{pl}-{deep}"), chance("c", vec![(1, x(3)), (1, below)])));
            // (b) two different own infosets above
            let y1 = player(pl, "y1", vec![("a", wrap(deep, x(1))), ("b", term(2))]);
            let y2 = player(pl, "y2", vec![("a", wrap(deep, x(2))), ("b", term(1))]);
            v.push((format!("recall-two-infosets-p{pl}-{deep}"), chance("c", vec![(1, y1), (2, y2)])));
        }
    }
    v
}

pub fn all() -> Vec<(String, Tree)> {
    let mut v = vec![
        ("pennies".to_string(), pennies()),
        ("kuhn".to_string(), kuhn()),
        ("rare".to_string(), rare()),
        ("dominated".to_string(), dominated()),
        ("lonely".to_string(), lonely()),
        ("flat".to_string(), flat()),
    ];
    v.push(("coins".to_string(), coins()));
    v.push(("liars".to_string(), liars()));
    v.push(("twodice".to_string(), two_dice()));
    v.push(("rps".to_string(), rps([1, 1, 1])));
    v.push(("rps-weighted".to_string(), rps([1, 2, 3])));
    for d in [2, 4, 6, 8] {
        v.push((format!("chain{d}"), chain(d)));
    }
    for k in [2, 4, 8, 16] {
        v.push((format!("shared{k}"), shared(k)));
    }
    v
}
