//! C02 / C03 / C04: run real solves and record them for Trace_Solve.tla
use crate::cfr::{self, PRESETS};
use crate::rng::Rng;
use crate::tree::{self, GenCfg, Tree};
use crate::util::{self, Args, Out};
use crate::zoo;
use serde_json::{json, Value};

fn corpus(seed: u64, n: u64, small: bool) -> Vec<(String, Tree)> {
    let mut games = zoo::all();
    if small {
        games.extend(zoo::exact_zeros());
    }
    let mut rng = Rng::new(seed ^ 0xc0c0);
    for id in 0..n {
        let mut r = rng.fork();
        let cfg = GenCfg {
            max_depth: 3 + (id % 3) as usize,
            max_nodes: if small { 30 } else { 60 },
            max_infos: 6,
            ..GenCfg::default()
        };
        let mut t = tree::gen_tree(&mut r, &cfg);
        tree::shorten(&mut t);
        games.push((format!("rand{id}"), t));
    }
    for (_, t) in games.iter_mut() {
        cfr::label_chance(t);
    }
    games
}

/// games with many infosets (C02 / C03: several threads on sizes an implementation might special-case)
fn large_corpus() -> Vec<(String, Tree)> {
    // (a chain of depth 130 nests deeper than the JSON reader of the trace specification accepts: 255 levels)
    let mut games: Vec<(String, Tree)> = zoo::large().into_iter().filter(|(n, _)| n.starts_with("cards") || n.starts_with("wide")).collect();
    for (_, t) in games.iter_mut() {
        cfr::label_chance(t);
    }
    games
}

#[allow(clippy::too_many_arguments)]
fn run_event(out: &mut Out, t: &Tree, meth: &str, preset: &str, k: usize, budget: u64, thr: f64, seed: u64, first: bool, last: bool) -> Option<(f64, f64)> {
    use cfr::verif;
    let par = cfr::preset(preset);
    // count the iterations actually run through the event log
    let t2 = t.clone();
    let meth2 = meth.to_string();
    let res = util::catch(move || {
        let game = tree::build(&cfr::unlabelled(&t2)).map_err(|e| format!("{e:?}"))?;
        verif::reset();
        // seed u64::MAX = live randomness: the production samplers draw (nothing pinned)
        if seed != u64::MAX {
            verif::set_draw_seed(Some(seed));
        }
        verif::set_record(true, false);
        let res = game.solve(cfr::method(&meth2), budget, thr, k, Some(cfr::params(&par)));
        let log = verif::take_log();
        verif::reset();
        let iters = log.iter().filter(|e| matches!(e, verif::Event::IterEnd(..))).count();
        let (strat, bound) = res.map_err(|e| format!("{e:?}"))?;
        let info = strat.get_info();
        Ok::<_, String>((
            iters,
            [bound.player_regret_bound(cfr::PlayerNum::One), bound.player_regret_bound(cfr::PlayerNum::Two), bound.regret_bound()],
            [info.player_regret(cfr::PlayerNum::One), info.player_regret(cfr::PlayerNum::Two), info.regret()],
        ))
    });
    match res {
        Ok(Ok((iters, b, r))) => {
            out.line(&json!({"e": "run", "method": meth, "preset": preset, "k": k, "T": budget, "iters": iters, "seed": seed,
                "first": first, "last": last,
                "b1": util::token(b[0]), "b2": util::token(b[1]), "bt": util::token(b[2]),
                "r1": util::token(r[0]), "r2": util::token(r[1]), "rt": util::token(r[2]),
                "b1hi": util::micro_ceil(b[0]), "b2hi": util::micro_ceil(b[1]),
                "b1lo": util::micro_floor(b[0]), "b2lo": util::micro_floor(b[1]),
                "rtlo": util::micro_floor(r[2]), "rthi": util::micro_ceil(r[2]),
                "thrhi": if thr.is_finite() { util::micro_ceil(thr) } else { 0 }}));
            Some((b[2], r[2]))
        }
        Ok(Err(msg)) | Err(msg) => {
            out.line(&json!({"e": "failed", "method": meth, "preset": preset, "k": k, "T": budget, "what": msg}));
            None
        }
    }
}

/// a run of Full / vanilla on a game whose numbers do not fit the micro-units of the trace: tokens only
fn xrun_event(out: &mut Out, name: &str, t: &Tree, k: usize, budget: u64, thr: f64) -> bool {
    use cfr::verif;
    let par = cfr::preset("vanilla");
    let t2 = t.clone();
    let res = util::catch(move || {
        let game = tree::build(&t2).map_err(|e| format!("{e:?}"))?;
        verif::reset();
        verif::set_record(true, false);
        let res = game.solve(cfr::method("Full"), budget, thr, k, Some(cfr::params(&par)));
        let log = verif::take_log();
        verif::reset();
        let iters = log.iter().filter(|e| matches!(e, verif::Event::IterEnd(..))).count();
        let (strat, bound) = res.map_err(|e| format!("{e:?}"))?;
        let info = strat.get_info();
        Ok::<_, String>((
            iters,
            [bound.player_regret_bound(cfr::PlayerNum::One), bound.player_regret_bound(cfr::PlayerNum::Two), bound.regret_bound()],
            [info.player_regret(cfr::PlayerNum::One), info.player_regret(cfr::PlayerNum::Two), info.regret()],
        ))
    });
    match res {
        Ok(Ok((iters, b, r))) => {
            out.line(&json!({"e": "xrun", "game": name, "method": "Full", "preset": "vanilla", "k": k, "T": budget, "iters": iters,
                "b1": util::token(b[0]), "b2": util::token(b[1]), "bt": util::token(b[2]),
                "r1": util::token(r[0]), "r2": util::token(r[1]), "rt": util::token(r[2]), "thr": util::token(thr),
                "values": format!("bounds {b:?} regrets {r:?}")}));
            true
        }
        Ok(Err(msg)) | Err(msg) => {
            out.line(&json!({"e": "failed", "method": "Full", "preset": "vanilla", "k": k, "T": budget, "what": msg}));
            false
        }
    }
}

pub fn record(args: &Args) {
    let seed = args.num("seed", 1);
    let n = args.num("n", 20);
    let mode = args.get("mode");
    let thorough = args.get_or("thorough", "0") == "1";
    let mut out = Out::create(args.get("out"));
    let mut games = corpus(seed, n, mode == "c04");
    let first_large = games.len();
    if mode == "c02" || mode == "c03" {
        games.extend(large_corpus());
    }
    let budgets: &[u64] = if thorough { &[1, 4, 25, 100, 400, 2500, 10000] } else { &[1, 4, 25, 100, 400, 2500] };
    let mut runs = 0usize;
    let mut min_ratio = f64::INFINITY;
    let mut samples: Vec<Value> = Vec::new();
    for (gix, (name, t)) in games.iter().enumerate() {
        let (d, ninf, _) = t.stats();
        let large = gix >= first_large;
        if d * ninf as f64 > 500.0 && !large {
            continue;
        }
        out.line(&json!({"e": "reset", "game": name, "tree": t}));
        match mode {
            "c02" => {
                let ks: &[usize] = if large { &[2, 3] } else if thorough { &[1, 2, 3, 4, 8, 16] } else { &[1, 2, 4] };
                let mut seen = Vec::new();
                let large_budgets: &[u64] = &[25, 2500];
                for &budget in if large { large_budgets } else { budgets } {
                    for &k in ks {
                        if let Some((b, r)) = run_event(&mut out, t, "Full", "vanilla", k, budget, 0.0, seed, false, false) {
                            runs += 1;
                            if r > 1e-9 {
                                min_ratio = min_ratio.min(b / r);
                            }
                            if k == 1 {
                                seen.push(b);
                            }
                        }
                    }
                }
                // thresholds around the bounds seen: the run must stop early with true regret below
                for (j, b) in seen.iter().enumerate() {
                    for thr in [b * 1.000001, b * 0.999999, b * 3.0] {
                        let k = ks[j % ks.len()];
                        if run_event(&mut out, t, "Full", "vanilla", k, 2500, thr, seed, false, false).is_some() {
                            runs += 1;
                        }
                    }
                }
            }
            "c03" => {
                let ks: &[usize] = if large { &[2, 3] } else if thorough { &[1, 4] } else { &[1] };
                for preset in (if large { &PRESETS[..2] } else { &PRESETS[..] }).iter().copied() {
                    for &k in ks {
                        for &budget in budgets {
                            // one series per (preset, threads): `first` / `last` mark budgets 25 and 2500 for the trend
                            if run_event(&mut out, t, "Full", preset, k, budget, 0.0, seed, budget == 25, budget == 2500).is_some() {
                                runs += 1;
                            }
                        }
                    }
                }
            }
            _ => {
                let ks: &[usize] = if thorough { &[1, 2, 8] } else { &[1, 2] };
                let presets: &[&str] = if thorough { &PRESETS } else { &["vanilla", "dcfr"] };
                let seeds: u64 = if thorough { 3 } else { 1 };
                for meth in ["Sampled", "External"] {
                    for preset in presets {
                        for &k in ks {
                            for s in 0..seeds {
                                let sd = seed.wrapping_mul(1000).wrapping_add(s);
                                for (j, budget) in [100u64, 2500].into_iter().enumerate() {
                                    if run_event(&mut out, t, meth, preset, k, budget, 0.0, sd, j == 0, j == 1).is_some() {
                                        runs += 1;
                                    }
                                }
                                // small games also at a budget at which the envelope is tight enough to see a
                                // solver that settles on a non-equilibrium
                                if t.count() <= 20 && k == 1 && s == 0 && run_event(&mut out, t, meth, preset, k, 160000, 0.0, sd, false, false).is_some() {
                                    runs += 1;
                                }
                                // ... and once with LIVE randomness, so that the production samplers (not the pinned
                                // draws of the hook) decide what is explored; the envelope leaves a factor of about 20
                                if t.count() <= 20 && s == 0 && k == 1 && run_event(&mut out, t, meth, preset, k, 160000, 0.0, u64::MAX, false, false).is_some() {
                                    runs += 1;
                                }
                            }
                        }
                    }
                }
            }
        }
        if samples.len() < 2 {
            samples.push(json!({"game": name, "nodes": t.count()}));
        }
    }
    if mode == "c02" {
        // EXTREME magnitudes: no envelope (the statistics leave 32 bits), the comparison bound >= true regret on the
        // floating-point numbers themselves (order tokens)
        let (tn, tt, tu) = zoo::tiny_units();
        for (name, t, unit) in zoo::extreme().into_iter().map(|(n, t)| (n, t, 1.0)).chain(std::iter::once((tn, tt, tu))) {
            for budget in [1u64, 4, 25, 100, 400] {
                for k in [1usize, 2] {
                    for thr in [0.0, 0.05 * unit] {
                        if xrun_event(&mut out, &name, &t, k, budget, thr) {
                            runs += 1;
                        }
                    }
                }
            }
        }
    }
    out.line(&json!({"e": "corpus"}));
    println!("{}", json!({"runs": runs, "games": games.len(), "min_bound_over_regret": if min_ratio.is_finite() { min_ratio } else { 0.0 }, "samples": samples}));
}
