//! C18 truncate, C19 distance, C14 import, C13 named view: replay / record against Strategy.tla
use crate::tree::{self, CKid, Num, PKid, Tree};
use crate::util::{self, Args, Out};
use cfr::PlayerNum;
use serde_json::{json, Value};

/// The carrier game for strategy-level checks: a chance root with one decision node per infoset.
/// Player p's j-th multi-action infoset is "m<j>" with actions "a1".."an", the j-th single-action
/// infoset is "s<j>" with action "only".
pub fn strat_game(nacts: [&[usize]; 2], singles: [usize; 2]) -> Tree {
    let mut kids = Vec::new();
    let mut pay = 0i64;
    for pl in 0..2 {
        for (j, n) in nacts[pl].iter().enumerate() {
            kids.push(CKid {
                w: Num::I(1),
                t: Tree::P {
                    pl: pl as u8 + 1,
                    info: format!("m{}", j + 1),
                    kids: (1..=*n)
                        .map(|a| {
                            pay = (pay * 7 + 3) % 11 - 5;
                            PKid {
                                a: format!("a{a}"),
                                t: Tree::T { pay: Num::I(pay) },
                            }
                        })
                        .collect(),
                },
            });
        }
        for j in 0..singles[pl] {
            kids.push(CKid {
                w: Num::I(1),
                t: Tree::P {
                    pl: pl as u8 + 1,
                    info: format!("s{}", j + 1),
                    kids: vec![PKid {
                        a: "only".to_string(),
                        t: Tree::T { pay: Num::I(1) },
                    }],
                },
            });
        }
    }
    Tree::C {
        ci: "none".to_string(),
        kids,
    }
}

fn weights(v: &Value) -> [Vec<Vec<i64>>; 2] {
    let side = |s: &Value| -> Vec<Vec<i64>> {
        s.as_array()
            .unwrap()
            .iter()
            .map(|w| w.as_array().unwrap().iter().map(|x| x.as_i64().unwrap()).collect())
            .collect()
    };
    [side(&v[0]), side(&v[1])]
}

fn named_from(w: &[Vec<Vec<i64>>; 2], singles: [usize; 2]) -> [Vec<(String, Vec<(String, f64)>)>; 2] {
    named_from_scaled(w, singles, 1.0)
}

/// every weight multiplied by a power of two (exact, also when the results are subnormal): the same profile
fn named_from_scaled(w: &[Vec<Vec<i64>>; 2], singles: [usize; 2], scale: f64) -> [Vec<(String, Vec<(String, f64)>)>; 2] {
    let mut res: [Vec<(String, Vec<(String, f64)>)>; 2] = [Vec::new(), Vec::new()];
    for pl in 0..2 {
        for (j, ws) in w[pl].iter().enumerate() {
            res[pl].push((
                format!("m{}", j + 1),
                ws.iter()
                    .enumerate()
                    .map(|(a, x)| (format!("a{}", a + 1), *x as f64 * scale))
                    .collect(),
            ));
        }
        for j in 0..singles[pl] {
            res[pl].push((format!("s{}", j + 1), vec![("only".to_string(), scale)]));
        }
    }
    res
}

fn split(dense: &[f64], w: &[Vec<i64>]) -> Vec<Vec<f64>> {
    let mut res = Vec::new();
    let mut at = 0;
    for ws in w {
        res.push(dense[at..at + ws.len()].to_vec());
        at += ws.len();
    }
    res
}

fn threshold(h: &Value) -> f64 {
    match h["t"].as_str().unwrap() {
        "nan" => f64::NAN,
        "inf" => f64::INFINITY,
        "ninf" => f64::NEG_INFINITY,
        _ => util::rat(&h["v"]),
    }
}

fn is_dist_all(dense: &[Vec<f64>; 2], w: &[Vec<Vec<i64>>; 2]) -> bool {
    (0..2).all(|pl| split(&dense[pl], &w[pl]).iter().all(|g| is_dist(g)))
}

fn is_dist(v: &[f64]) -> bool {
    v.iter().all(|p| p.is_finite() && *p >= 0.0) && (v.iter().sum::<f64>() - 1.0).abs() < 1e-9
}

/// C18: replay (weights, threshold) -> expected per infoset
pub fn replay_trunc(args: &Args) {
    let cases = util::read_ndjson(args.get("exp"));
    let mut out = Out::create(args.get("out"));
    for (n, row) in cases.iter().enumerate() {
        let case = &row["exp"];
        let w = weights(&case["w"]);
        let nacts: [Vec<usize>; 2] = [
            w[0].iter().map(|x| x.len()).collect(),
            w[1].iter().map(|x| x.len()).collect(),
        ];
        let tree = strat_game([&nacts[0], &nacts[1]], [0, 0]);
        let h = threshold(&case["h"]);
        let exp = case["exp"].as_array().unwrap().clone();
        let wc = w.clone();
        let res = util::catch(move || {
            let game = tree::build(&tree).expect("carrier game");
            let mut strat = game.from_named(named_from(&wc, [0, 0])).expect("grid profile");
            // a history on ONE object: evaluate, truncate in place, evaluate again (below)
            let _ = strat.get_info();
            strat.truncate(h);
            let once = strat.verif_dense();
            let named: Vec<Vec<(String, Vec<(String, f64)>)>> = strat
                .as_named()
                .into_iter()
                .map(|it| {
                    it.map(|(i, acts)| (i.clone(), acts.map(|(a, p)| (a.clone(), p)).collect()))
                        .collect()
                })
                .collect();
            let info = strat.get_info();
            let nums = [
                info.player_utility(PlayerNum::One),
                info.player_regret(PlayerNum::One),
                info.player_regret(PlayerNum::Two),
            ];
            // the same profile imported afresh must evaluate to the same numbers
            let fresh = game.from_named(named.iter().cloned().collect::<Vec<_>>().try_into().unwrap_or_else(|_| panic!("two sides")));
            let fresh_nums = fresh.ok().map(|f| {
                let i = f.get_info();
                [i.player_utility(PlayerNum::One), i.player_regret(PlayerNum::One), i.player_regret(PlayerNum::Two)]
            });
            strat.truncate(h);
            let twice = strat.verif_dense();
            (once, twice, named, nums, fresh_nums)
        });
        let mut bad = Vec::new();
        match res {
            Err(msg) => bad.push(json!({"what": "panic", "observed": msg})),
            Ok((once, twice, named, nums, fresh_nums)) => {
                if let Some(f) = fresh_nums {
                    if is_dist_all(&once, &w) && nums.iter().zip(f.iter()).any(|(a, b)| !util::close(*a, *b, 1e-12)) {
                        bad.push(json!({"what": "evaluation of the truncated object differs from the evaluation of the same profile imported afresh",
                            "class": "history", "observed": nums.to_vec(), "fresh": f.to_vec()}));
                    }
                }
                let mut ix = 0;
                for pl in 0..2 {
                    let got = split(&once[pl], &w[pl]);
                    let got2 = split(&twice[pl], &w[pl]);
                    for (j, g) in got.iter().enumerate() {
                        let e = &exp[ix];
                        ix += 1;
                        if !is_dist(g) {
                            bad.push(json!({"what": "not a distribution", "class": if e["fixed"].as_bool().unwrap() {"fixed"} else {"none-exceeds"},
                                "player": pl + 1, "infoset": j + 1, "observed": g}));
                            continue;
                        }
                        if e["fixed"].as_bool().unwrap() {
                            let want: Vec<f64> = e["v"].as_array().unwrap().iter().map(util::rat).collect();
                            let same = g.iter().zip(want.iter()).all(|(a, b)| {
                                util::close(*a, *b, 1e-12) && ((*a == 0.0) == (*b == 0.0))
                            });
                            if !same {
                                bad.push(json!({"what": "survivors or rescaling differ", "class": "fixed",
                                    "player": pl + 1, "infoset": j + 1, "observed": g, "specified": e["v"]}));
                            }
                        }
                        if !g.iter().zip(got2[j].iter()).all(|(a, b)| util::close(*a, *b, 1e-12)) {
                            bad.push(json!({"what": "truncating twice differs from once", "class": "idempotent",
                                "player": pl + 1, "infoset": j + 1, "observed": [g, &got2[j]]}));
                        }
                    }
                    // the named view of the result must list positive actions summing to one
                    for (_, acts) in named[pl].iter() {
                        let s: f64 = acts.iter().map(|(_, p)| p).sum();
                        if (s - 1.0).abs() > 1e-9 {
                            bad.push(json!({"what": "named view of truncated profile does not sum to one", "class": "named",
                                "player": pl + 1, "observed": s}));
                        }
                    }
                }
                if nums.iter().any(|x| !x.is_finite()) {
                    bad.push(json!({"what": "evaluation of truncated profile not finite", "class": "eval", "observed": nums.to_vec()}));
                }
            }
        }
        // a history on a fresh object: truncate(1.0) removes nothing (no probability exceeds one, so every infoset is left
        // as it is), and a later truncate(h) must then do what it does on a fresh profile
        if h.is_finite() && h < 1.0 {
            let tree3 = strat_game([&nacts[0], &nacts[1]], [0, 0]);
            let wc3 = w.clone();
            let res3 = util::catch(move || {
                let game = tree::build(&tree3).expect("carrier game");
                let mut strat = game.from_named(named_from(&wc3, [0, 0])).expect("grid profile");
                strat.truncate(1.0);
                let mut copy = strat.clone();
                strat.truncate(h);
                copy.truncate(h);
                (strat.verif_dense(), copy.verif_dense())
            });
            match res3 {
                Err(msg) => bad.push(json!({"what": "panic (truncate(1.0) first)", "observed": msg})),
                Ok((dense, dense_copy)) => {
                    for (label, dd) in [("the object", &dense), ("a clone taken in between", &dense_copy)] {
                        let mut ix = 0;
                        for pl in 0..2 {
                            for (j, g) in split(&dd[pl], &w[pl]).iter().enumerate() {
                                let e = &exp[ix];
                                ix += 1;
                                if e["fixed"].as_bool().unwrap() {
                                    let want: Vec<f64> = e["v"].as_array().unwrap().iter().map(util::rat).collect();
                                    if !g.iter().zip(want.iter()).all(|(a, b)| util::close(*a, *b, 1e-12) && ((*a == 0.0) == (*b == 0.0))) {
                                        bad.push(json!({"what": "truncate(h) after a truncate(1.0) that removed nothing differs from truncate(h) on a fresh profile",
                                            "class": "sequence", "on": label, "player": pl + 1, "infoset": j + 1, "observed": g, "specified": e["v"]}));
                                    }
                                }
                            }
                        }
                    }
                }
            }
        }
        // the same profile with every ZERO weight replaced by 2^-70: a positive probability so small that it is absorbed
        // by rounding (the others are bitwise the same, the survivors still sum to one).  Any threshold >= 1e-3 must
        // remove such an action: the expectation is the one of the profile with exact zeros
        let has_zero = w.iter().any(|side| side.iter().any(|ws| ws.iter().any(|x| *x == 0) && ws.iter().any(|x| *x > 0)));
        if has_zero && h.is_finite() && h >= 1e-3 {
            let tiny = 2f64.powi(-70);
            let mut named: [Vec<(String, Vec<(String, f64)>)>; 2] = named_from(&w, [0, 0]);
            for side in named.iter_mut() {
                for (_, acts) in side.iter_mut() {
                    for (_, x) in acts.iter_mut() {
                        if *x == 0.0 {
                            *x = tiny;
                        }
                    }
                }
            }
            let tree2 = strat_game([&nacts[0], &nacts[1]], [0, 0]);
            let res2 = util::catch(move || {
                let game = tree::build(&tree2).expect("carrier game");
                let mut strat = game.from_named(named).expect("grid profile with tiny weights");
                strat.truncate(h);
                strat.verif_dense()
            });
            match res2 {
                Err(msg) => bad.push(json!({"what": "panic (tiny weights)", "observed": msg})),
                Ok(dense) => {
                    let mut ix = 0;
                    for pl in 0..2 {
                        for (j, g) in split(&dense[pl], &w[pl]).iter().enumerate() {
                            let e = &exp[ix];
                            ix += 1;
                            if e["fixed"].as_bool().unwrap() {
                                let want: Vec<f64> = e["v"].as_array().unwrap().iter().map(util::rat).collect();
                                if !g.iter().zip(want.iter()).all(|(a, b)| util::close(*a, *b, 1e-12) && ((*a == 0.0) == (*b == 0.0))) {
                                    bad.push(json!({"what": "an action of vanishing probability (2^-70) at or below the threshold survives or the survivors differ",
                                        "class": "tiny", "player": pl + 1, "infoset": j + 1, "observed": g, "specified": e["v"]}));
                                }
                            }
                        }
                    }
                }
            }
        }
        // ... and a threshold BELOW every positive probability (0, -1) removes nothing, however small the probability is
        // (NoOpBelowMin): the profile with the vanishing actions keeps its support and its probabilities (up to the rounding of
        // a renormalisation by a total that is one)
        if has_zero && h.is_finite() && h <= 0.0 {
            let tiny = 2f64.powi(-70);
            let mut named: [Vec<(String, Vec<(String, f64)>)>; 2] = named_from(&w, [0, 0]);
            for side in named.iter_mut() {
                for (_, acts) in side.iter_mut() {
                    for (_, x) in acts.iter_mut() {
                        if *x == 0.0 {
                            *x = tiny;
                        }
                    }
                }
            }
            let tree2 = strat_game([&nacts[0], &nacts[1]], [0, 0]);
            let res2 = util::catch(move || {
                let game = tree::build(&tree2).expect("carrier game");
                let mut strat = game.from_named(named).expect("grid profile with tiny weights");
                let before = strat.verif_dense();
                strat.truncate(h);
                (before, strat.verif_dense())
            });
            match res2 {
                Err(msg) => bad.push(json!({"what": "panic (tiny weights, threshold below every probability)", "observed": msg})),
                Ok((before, after)) => {
                    let same = (0..2).all(|pl| before[pl].len() == after[pl].len() && before[pl].iter().zip(after[pl].iter()).all(|(a, b)| util::close(*a, *b, 1e-12) && ((*a > 0.0) == (*b > 0.0))));
                    if !same {
                        bad.push(json!({"what": "a threshold below every positive probability changed a profile with actions of vanishing probability (2^-70)",
                            "class": "tiny-kept", "threshold": h, "before": before, "after": after}));
                    }
                }
            }
        }
        let nontrivial = exp.iter().any(|e| e["fixed"].as_bool().unwrap());
        if bad.is_empty() {
            out.line(&json!({"id": n, "status": "ok", "nontrivial": nontrivial}));
        } else {
            out.line(&json!({"id": n, "status": "violation", "mismatch": bad}));
        }
    }
}

/// C19: replay pairs of profiles and an exponent into Strategies::distance
pub fn replay_dist(args: &Args) {
    let cases = util::read_ndjson(args.get("exp"));
    let mut out = Out::create(args.get("out"));
    for (n, row) in cases.iter().enumerate() {
        let case = &row["exp"];
        let s = weights(&case["s"]);
        let t = weights(&case["t"]);
        let p = util::rat(&case["p"]);
        let panics = case["panics"].as_bool().unwrap();
        let nacts: [Vec<usize>; 2] = [
            s[0].iter().map(|x| x.len()).collect(),
            s[1].iter().map(|x| x.len()).collect(),
        ];
        // a player without a multi-action infoset still needs to be in the game: give it a single
        let singles = [if nacts[0].is_empty() { 1 } else { 0 }, if nacts[1].is_empty() { 1 } else { 0 }];
        let tree = strat_game([&nacts[0], &nacts[1]], singles);
        let (sc, tc) = (s.clone(), t.clone());
        let res = util::catch(move || {
            let game = tree::build(&tree).expect("carrier game");
            // every third case: the first profile given in weights x 2^-1070 (subnormal totals), every third the second in
            // weights x 2^900 - the same profiles, so the specified distances stand
            let (k1, k2) = match n % 3 {
                1 => (2f64.powi(-1070), 1.0),
                2 => (1.0, 2f64.powi(900)),
                _ => (1.0, 1.0),
            };
            let one = game.from_named(named_from_scaled(&sc, singles, k1)).expect("grid profile");
            let two = game.from_named(named_from_scaled(&tc, singles, k2)).expect("grid profile");
            let fwd = util::catch(std::panic::AssertUnwindSafe(|| one.distance(&two, p)));
            let bwd = util::catch(std::panic::AssertUnwindSafe(|| two.distance(&one, p)));
            let slf = util::catch(std::panic::AssertUnwindSafe(|| one.distance(&one, p)));
            (fwd, bwd, slf)
        });
        let mut bad = Vec::new();
        let mut dev = false;
        match res {
            Err(msg) => bad.push(json!({"what": "panic outside distance", "observed": msg})),
            Ok((fwd, bwd, slf)) => {
                if panics {
                    if fwd.is_ok() || bwd.is_ok() || slf.is_ok() {
                        bad.push(json!({"class": "panic", "what": "no panic for non-positive p", "p": p,
                            "calls": {"s_vs_t": fwd.is_ok(), "t_vs_s": bwd.is_ok(), "s_vs_itself": slf.is_ok()}}));
                    }
                } else {
                    match (fwd, bwd, slf) {
                        (Ok(d12), Ok(d21), Ok(d11)) => {
                            for pl in 0..2 {
                                let (a, b) = (d12[pl], d21[pl]);
                                let empty = nacts[pl].is_empty();
                                let class = |base: &str| -> String {
                                    format!("{}{}{}", base, if empty { ":no-infoset" } else { "" }, if p < 1.0 { ":p<1" } else { "" })
                                };
                                if a.is_nan() || b.is_nan() {
                                    bad.push(json!({"class": class("nan"), "what": "distance is NaN", "player": pl + 1}));
                                    continue;
                                }
                                if !(0.0..=1.0 + 1e-12).contains(&a) {
                                    // classify: is it exactly the documented formula (half the sum of
                                    // |x-y|^p, averaged over infosets) leaving [0,1] because p < 1?
                                    let mut formula = 0.0;
                                    for (ws, wt) in s[pl].iter().zip(t[pl].iter()) {
                                        let (ts, tt): (i64, i64) = (ws.iter().sum(), wt.iter().sum());
                                        for (x, y) in ws.iter().zip(wt.iter()) {
                                            formula += (*x as f64 / ts as f64 - *y as f64 / tt as f64).abs().powf(p);
                                        }
                                    }
                                    formula /= 2.0 * nacts[pl].len().max(1) as f64;
                                    let base = if p < 1.0 && util::close(a, formula, 1e-12) { "range:documented-formula" } else { "range" };
                                    bad.push(json!({"class": class(base), "what": "distance outside [0,1]", "player": pl + 1, "observed": a}));
                                }
                                if a.to_bits() != b.to_bits() && !util::close(a, b, 1e-15) {
                                    bad.push(json!({"class": class("symmetry"), "what": "distance not symmetric", "player": pl + 1, "observed": [a, b]}));
                                }
                                let equal = case["equal"][pl].as_bool().unwrap();
                                if equal && a != 0.0 {
                                    bad.push(json!({"class": class("zero"), "what": "distance of coinciding strategies not zero", "player": pl + 1, "observed": a}));
                                }
                                if !equal && !(a > 0.0) {
                                    bad.push(json!({"class": class("positive"), "what": "distance of differing strategies not positive", "player": pl + 1, "observed": a}));
                                }
                                if d11[pl] != 0.0 && !d11[pl].is_nan() {
                                    bad.push(json!({"class": class("self"), "what": "distance to itself not zero", "player": pl + 1, "observed": d11[pl]}));
                                }
                                let r = &case["ref"][pl];
                                if !util::is_poison(r) && !util::close(a, util::rat(r), 1e-12) {
                                    dev = true;
                                }
                            }
                        }
                        _ => bad.push(json!({"class": "panic", "what": "panic for positive p on one game", "p": p})),
                    }
                }
            }
        }
        let nontrivial = !panics && !(case["equal"][0].as_bool().unwrap() && case["equal"][1].as_bool().unwrap());
        if !bad.is_empty() {
            out.line(&json!({"id": n, "status": "violation", "mismatch": bad}));
        } else if dev {
            out.line(&json!({"id": n, "status": "deviation"}));
        } else {
            out.line(&json!({"id": n, "status": "ok", "nontrivial": nontrivial}));
        }
    }
    // the other documented panic: profiles of different games - two builds of one tree and two different trees, for
    // every combination of players with / without a several-action infoset (the identity of a game must not hinge on
    // storage that is empty for such players)
    let shapes: [[&[usize]; 2]; 4] = [[&[2], &[2]], [&[], &[2]], [&[2], &[]], [&[], &[]]];
    let mut n = cases.len();
    for sa in shapes.iter() {
        for sb in shapes.iter() {
            let (ta, tb) = (strat_game(*sa, [1, 1]), strat_game(*sb, [1, 1]));
            let wa = [sa[0].iter().map(|k| vec![1; *k]).collect::<Vec<_>>(), sa[1].iter().map(|k| vec![1; *k]).collect::<Vec<_>>()];
            let wb = [sb[0].iter().map(|k| vec![1; *k]).collect::<Vec<_>>(), sb[1].iter().map(|k| vec![1; *k]).collect::<Vec<_>>()];
            let res = util::catch(move || {
                let g1 = tree::build(&ta).unwrap();
                let g2 = tree::build(&tb).unwrap();
                let a = g1.from_named(named_from(&wa, [1, 1])).unwrap();
                let b = g2.from_named(named_from(&wb, [1, 1])).unwrap();
                let cross = util::catch(std::panic::AssertUnwindSafe(|| a.distance(&b, 1.0))).is_err();
                // ... while two profiles of ONE game object never panic
                let same = util::catch(std::panic::AssertUnwindSafe(|| a.distance(&a.clone(), 1.0))).is_ok();
                (cross, same)
            });
            n += 1;
            match res {
                Ok((true, true)) => out.line(&json!({"id": n, "status": "ok", "nontrivial": true})),
                Ok((cross, same)) => out.line(&json!({"id": n, "status": "violation", "mismatch": [{"class": "game-identity",
                    "what": if !cross { "no panic for profiles of different game objects" } else { "panic for two profiles of one game object" },
                    "first": sa.iter().map(|x| x.to_vec()).collect::<Vec<_>>(), "second": sb.iter().map(|x| x.to_vec()).collect::<Vec<_>>(), "same_ok": same}]})),
                Err(msg) => out.line(&json!({"id": n, "status": "violation", "mismatch": [{"class": "game-identity", "what": "building the games failed", "observed": msg}]})),
            }
        }
    }
}

/// carrier game from a description of the two sides (names as in Strategy.tla)
fn carrier(sides: &Value) -> Tree {
    let mut kids = Vec::new();
    let mut pay = 0i64;
    for pl in 0..2 {
        for m in sides[pl]["multi"].as_array().unwrap() {
            kids.push(CKid {
                w: Num::I(1),
                t: Tree::P {
                    pl: pl as u8 + 1,
                    info: m["name"].as_str().unwrap().to_string(),
                    kids: m["acts"]
                        .as_array()
                        .unwrap()
                        .iter()
                        .map(|a| {
                            pay = (pay * 7 + 3) % 11 - 5;
                            PKid {
                                a: a.as_str().unwrap().to_string(),
                                t: Tree::T { pay: Num::I(pay) },
                            }
                        })
                        .collect(),
                },
            });
        }
        for s in sides[pl]["single"].as_array().unwrap() {
            kids.push(CKid {
                w: Num::I(1),
                t: Tree::P {
                    pl: pl as u8 + 1,
                    info: s["name"].as_str().unwrap().to_string(),
                    kids: vec![PKid {
                        a: s["act"].as_str().unwrap().to_string(),
                        t: Tree::T { pay: Num::I(1) },
                    }],
                },
            });
        }
    }
    Tree::C {
        ci: "none".to_string(),
        kids,
    }
}

fn weight(w: &Value, scale: f64, negzero: bool) -> f64 {
    match w["t"].as_str().unwrap() {
        "nan" => f64::NAN,
        "inf" => f64::INFINITY,
        "ninf" => f64::NEG_INFINITY,
        // the weight zero has two IEEE encodings: both are the number zero
        _ if negzero && w["k"].as_i64() == Some(0) => -0.0,
        _ => w["k"].as_i64().unwrap() as f64 * scale,
    }
}

fn has_zero_weight(lists: &Value) -> bool {
    (0..2).any(|pl| {
        lists[pl].as_array().map_or(false, |l| {
            l.iter().any(|e| e["acts"].as_array().map_or(false, |a| a.iter().any(|p| p["w"]["t"] != "nan" && p["w"]["k"].as_i64() == Some(0))))
        })
    })
}

type Named = Vec<(String, Vec<(String, f64)>)>;

fn entry_lists(lists: &Value, scale: f64, negzero: bool) -> [Named; 2] {
    let side = |l: &Value| -> Named {
        l.as_array()
            .unwrap()
            .iter()
            .map(|e| {
                (
                    e["info"].as_str().unwrap().to_string(),
                    e["acts"]
                        .as_array()
                        .unwrap()
                        .iter()
                        .map(|p| (p["a"].as_str().unwrap().to_string(), weight(&p["w"], scale, negzero)))
                        .collect(),
                )
            })
            .collect()
    };
    [side(&lists[0]), side(&lists[1])]
}

/// C14: replay entry lists into both import paths
pub fn replay_import(args: &Args) {
    let mut out = Out::create(args.get("out"));
    for (n, row) in util::stream_ndjson(args.get("exp")).enumerate() {
        let case = &row["exp"];
        let scale_name = case["scale"].as_str().unwrap();
        let scale = match scale_name {
            "one" => 1.0,
            "tiny" => 2f64.powi(-1070),
            "huge" => 2f64.powi(1000),
            "max" => 2f64.powi(1023),
            // totals of 2 or 3 weight units land within 1e-9 of one without being one
            "near-half" => (1.0 - 4e-10) / 2.0,
            "near-third" => (1.0 + 3e-10) / 3.0,
            other => panic!("scale {other}"),
        };
        let mut bad = Vec::new();
        let mut dev = false;
        // second pass: every zero weight written as -0.0 (the same number: the specified outcome is the same)
        for negzero in [false, true] {
        if negzero && !has_zero_weight(&case["lists"]) {
            continue;
        }
        let pre = if negzero { "negzero:" } else { "" };
        let tree = carrier(&case["sides"]);
        let lists = entry_lists(&case["lists"], scale, negzero);
        let (l1, l2) = (lists.clone(), lists.clone());
        let res = util::catch(move || {
            let game = tree::build(&tree).expect("carrier game");
            let fast = game.from_named(l1).map(|s| s.verif_dense()).map_err(|e| format!("{e:?}"));
            let slow = game.from_named_eq(l2).map(|s| s.verif_dense()).map_err(|e| format!("{e:?}"));
            (fast, slow)
        });
        let exp_err = case["exp"]["err"].as_str().unwrap();
        // does the total of some infoset overflow f64 although every weight is finite?
        let overflow = scale_name == "max"
            && case["exp"]["probs"].as_array().map_or(false, |ps| {
                ps.iter().any(|side| {
                    side.as_array().unwrap().iter().any(|v| {
                        v.as_array().unwrap().iter().filter(|q| q[0].as_i64() != Some(0)).count() >= 2
                    })
                })
            });
        match res {
            Err(msg) => bad.push(json!({"class": format!("{pre}{}", "panic"), "what": "import panicked", "observed": msg})),
            Ok((fast, slow)) => {
                let same = match (&fast, &slow) {
                    (Ok(a), Ok(b)) => a == b,
                    (Err(a), Err(b)) => a == b,
                    _ => false,
                };
                if !same {
                    bad.push(json!({"class": format!("{pre}paths"), "what": "from_named and from_named_eq disagree",
                        "observed": [format!("{fast:?}"), format!("{slow:?}")]}));
                }
                for (path, got) in [("from_named", &fast), ("from_named_eq", &slow)] {
                    match got {
                        Ok(dense) => {
                            if exp_err != "none" {
                                bad.push(json!({"class": format!("{pre}{}", "accepts"), "what": "import accepted an invalid named strategy", "path": path,
                                    "violated": case["violated"]}));
                            } else {
                                let mut ok = true;
                                for pl in 0..2 {
                                    let want: Vec<f64> = case["exp"]["probs"][pl]
                                        .as_array()
                                        .unwrap()
                                        .iter()
                                        .flat_map(|v| v.as_array().unwrap().iter().map(util::rat))
                                        .collect();
                                    if want.len() != dense[pl].len()
                                        || !want.iter().zip(dense[pl].iter()).all(|(a, b)| util::close(*b, *a, 1e-12))
                                    {
                                        ok = false;
                                    }
                                }
                                if !ok {
                                    bad.push(json!({"class": format!("{pre}{}", if overflow {"overflow"} else {"value"}), "what": "imported probabilities differ from weight / total", "path": path,
                                        "observed": dense, "specified": case["exp"]["probs"]}));
                                }
                            }
                        }
                        Err(kind) => {
                            if exp_err == "none" {
                                bad.push(json!({"class": format!("{pre}{}", "rejects"), "what": "import rejected a valid named strategy", "path": path, "observed": kind}));
                            } else if !case["violated"].as_array().unwrap().iter().any(|v| v.as_str() == Some(kind)) {
                                bad.push(json!({"class": format!("{pre}kind"), "what": "error names a rule that is not violated", "path": path,
                                    "observed": kind, "violated": case["violated"]}));
                            } else if kind != exp_err {
                                dev = true;
                            }
                        }
                    }
                }
            }
        }
        }
        if !bad.is_empty() {
            out.line(&json!({"id": n, "status": "violation", "mismatch": bad}));
        } else if dev {
            out.line(&json!({"id": n, "status": "deviation"}));
        } else {
            out.line(&json!({"id": n, "status": "ok", "nontrivial": true}));
        }
    }
}
