//! C13: record the iterator protocol of as_named() for Trace_NamedView.tla
use crate::rng::Rng;
use crate::tree::{self, GenCfg, Tree};
use crate::util::{self, Args, Out};
use cfr::{SolveMethod, Strategies};
use serde_json::{json, Value};

fn record_profile(out: &mut Out, game: &tree::G, strat: &Strategies<String, String>, label: &str) -> usize {
    let dump = game.verif_dump();
    let dense = strat.verif_dense();
    let mut events = 0;
    let named = strat.as_named();
    for (pl, mut outer) in named.into_iter().enumerate() {
        // the dense profile of this player split by infoset
        let mut toks = Vec::new();
        let mut pos = Vec::new();
        let mut at = 0;
        for info in dump.infos[pl].iter() {
            let cells = &dense[pl][at..at + info.actions.len()];
            at += info.actions.len();
            toks.push(cells.iter().map(|p| util::token(*p)).collect::<Vec<_>>());
            pos.push(cells.iter().map(|p| *p > 0.0).collect::<Vec<_>>());
        }
        let names: Vec<&String> = dump.infos[pl].iter().map(|i| &i.infoset).collect();
        let mut single_names: Vec<&String> = dump.singles[pl].iter().map(|(i, _)| i).collect();
        single_names.sort();
        out.line(&json!({"e": "reset", "label": label, "player": pl + 1, "pos": pos, "toks": toks,
            "ns": single_names.len(), "names": names, "one": util::token(1.0)}));
        events += 1;
        loop {
            out.line(&json!({"e": "olen", "v": outer.len()}));
            events += 1;
            match outer.next() {
                None => {
                    out.line(&json!({"e": "onext", "kind": "none"}));
                    // once more after exhaustion
                    out.line(&json!({"e": "olen", "v": outer.len()}));
                    let again = outer.next().is_none();
                    out.line(&json!({"e": "onext", "kind": if again { "none" } else { "resurrected" }}));
                    events += 3;
                    break;
                }
                Some((info, mut inner)) => {
                    let multi = dump.infos[pl].iter().position(|i| &i.infoset == info);
                    let acts: Vec<String> = if let Some(ix) = multi {
                        out.line(&json!({"e": "onext", "kind": "multi", "name": info}));
                        dump.infos[pl][ix].actions.clone()
                    } else {
                        let s = single_names.iter().position(|n| *n == info).map_or(0, |i| i + 1);
                        out.line(&json!({"e": "onext", "kind": "single", "name": info, "s": s}));
                        dump.singles[pl]
                            .iter()
                            .filter(|(i, _)| i == info)
                            .map(|(_, a)| a.clone())
                            .collect()
                    };
                    events += 1;
                    let mut total = 0.0f64;
                    loop {
                        out.line(&json!({"e": "ilen", "v": inner.len()}));
                        events += 1;
                        match inner.next() {
                            None => {
                                let dev = ((total - 1.0) * 1e13).round().clamp(-1e9, 1e9) as i64;
                                out.line(&json!({"e": "inext", "kind": "none", "dev": dev}));
                                out.line(&json!({"e": "ilen", "v": inner.len()}));
                                let again = inner.next().is_none();
                                out.line(&json!({"e": "inext", "kind": if again { "none" } else { "resurrected" }, "dev": 0}));
                                events += 3;
                                break;
                            }
                            Some((act, p)) => {
                                total += p;
                                let j = acts.iter().position(|a| a == act).map_or(0, |i| i + 1);
                                out.line(&json!({"e": "inext", "kind": "some", "j": j, "p": util::token(p),
                                    "lo": util::micro_floor(p), "hi": util::micro_ceil(p)}));
                                events += 1;
                            }
                        }
                    }
                }
            }
        }
    }
    // internal iteration: the same listing must come out when the iterators are consumed by the adaptors that are built
    // on fold / count / last / nth instead of next() (a second, fresh pair of iterators)
    for (pl, outer) in strat.as_named().into_iter().enumerate() {
        let names: Vec<&String> = dump.infos[pl].iter().map(|i| &i.infoset).collect();
        let mut single_names: Vec<&String> = dump.singles[pl].iter().map(|(i, _)| i).collect();
        single_names.sort();
        out.line(&json!({"e": "reset2", "player": pl + 1, "names": names, "ns": single_names.len(),
            "pos": (0..dump.infos[pl].len()).map(|i| {
                let at: usize = dump.infos[pl][..i].iter().map(|x| x.actions.len()).sum();
                dense[pl][at..at + dump.infos[pl][i].actions.len()].iter().map(|p| *p > 0.0).collect::<Vec<_>>()
            }).collect::<Vec<_>>()}));
        events += 1;
        let mut k = 0usize;
        let mut seen_outer: Vec<String> = Vec::new();
        outer.for_each(|(info, inner)| {
            seen_outer.push(info.clone());
            let multi = dump.infos[pl].iter().position(|i| &i.infoset == info);
            let acts: Vec<String> = match multi {
                Some(ix) => dump.infos[pl][ix].actions.clone(),
                None => dump.singles[pl].iter().filter(|(i, _)| i == info).map(|(_, a)| a.clone()).collect(),
            };
            let ix_of = |a: &String| acts.iter().position(|x| x == a).map_or(0, |i| i + 1);
            let which = multi.map_or(0, |i| i + 1);
            let ev = match k % 4 {
                0 => json!({"e": "consumed", "i": which, "via": "count", "n": inner.count()}),
                1 => {
                    let js: Vec<usize> = inner.fold(Vec::new(), |mut v, (a, _)| {
                        v.push(ix_of(a));
                        v
                    });
                    json!({"e": "consumed", "i": which, "via": "fold", "js": js})
                }
                2 => json!({"e": "consumed", "i": which, "via": "last", "j": inner.last().map_or(0, |(a, _)| ix_of(a))}),
                _ => {
                    let mut it = inner;
                    let first = it.nth(0).map_or(0, |(a, _)| ix_of(a));
                    let rest: Vec<usize> = it.map(|(a, _)| ix_of(a)).collect();
                    json!({"e": "consumed", "i": which, "via": "nth", "j": first, "js": rest})
                }
            };
            out.line(&ev);
            k += 1;
        });
        events += k;
        let nmulti = dump.infos[pl].len();
        out.line(&json!({"e": "oconsumed", "n": strat.as_named().into_iter().nth(pl).unwrap().count(),
            "multi": seen_outer.iter().take(nmulti).collect::<Vec<_>>(), "singles": seen_outer.len().saturating_sub(nmulti)}));
        events += 1;
    }
    // round trip
    let back = game.from_named(strat.as_named());
    let ok = match back {
        Ok(b) => {
            let d2 = b.verif_dense();
            (0..2).all(|pl| {
                dense[pl].len() == d2[pl].len()
                    && dense[pl].iter().zip(d2[pl].iter()).all(|(a, b)| (a - b).abs() <= 1e-13 * a.abs().max(1e-300) || a == b)
            })
        }
        Err(_) => false,
    };
    out.line(&json!({"e": "roundtrip", "ok": ok, "label": label}));
    events + 1
}

pub fn record(args: &Args) {
    let seed = args.num("seed", 1);
    let n = args.num("n", 50);
    let mut out = Out::create(args.get("out"));
    let mut rng = Rng::new(seed ^ 0xc13);
    let mut runs = 0;
    let mut events = 0;
    let mut samples: Vec<Value> = Vec::new();
    let mut failed: Vec<Value> = Vec::new();
    for id in 0..n {
        let mut r = rng.fork();
        let cfg = GenCfg {
            degenerate: 0.25,
            max_depth: 3 + (id % 3) as usize,
            ..GenCfg::default()
        };
        let mut t: Tree = tree::gen_tree(&mut r, &cfg);
        tree::shorten(&mut t);
        let game = match tree::build(&t) {
            Ok(g) => g,
            Err(e) => {
                failed.push(json!({"what": "a valid generated game was rejected by from_root", "error": format!("{e:?}"), "tree": t}));
                continue;
            }
        };
        // imported integer profiles: pure, sparse, full
        for style in 0..3 {
            let prof = tree::gen_profile(&mut r, &t, style, false);
            // a complete profile that names every infoset of either player (single-action ones included) once
            let strat = match game.from_named(tree::named(&t, &prof)) {
                Ok(s) => s,
                Err(e) => {
                    failed.push(json!({"what": "a complete profile over exactly the game's infosets was rejected by from_named",
                        "error": format!("{e:?}"), "tree": t, "profile": tree::named(&t, &prof)}));
                    continue;
                }
            };
            events += record_profile(&mut out, &game, &strat, "imported");
            runs += 1;
            // truncated
            let mut tr = strat.clone();
            tr.truncate([0.2, 0.34, 0.5][style as usize]);
            events += record_profile(&mut out, &game, &tr, "truncated");
            runs += 1;
        }
        // imported profiles whose weights span many orders of magnitude: probabilities far below one ulp of
        // 1.0 are still positive and must be listed (and counted) like any other
        {
            let named: [Vec<(String, Vec<(String, f64)>)>; 2] = {
                let base = tree::named(&t, &tree::gen_profile(&mut r, &t, 2, false));
                let mut k = 0usize;
                base.map(|side| {
                    side.into_iter()
                        .map(|(info, acts)| {
                            let acts = acts
                                .into_iter()
                                .map(|(a, w)| {
                                    k += 1;
                                    (a, if k % 3 == 0 { w * 1e-20 } else if k % 7 == 0 { w * 1e-300 } else { w })
                                })
                                .collect();
                            (info, acts)
                        })
                        .collect()
                })
            };
            if let Ok(strat) = game.from_named(named) {
                events += record_profile(&mut out, &game, &strat, "imported-tiny");
                runs += 1;
            }
        }
        // imported weights that are almost, but not exactly, normalised (ten-digit decimals; a distribution
        // scaled by 1 + 3e-10): the stored profile must still be weight / total
        for variant in 0..2 {
            let base = tree::named(&t, &tree::gen_profile(&mut r, &t, 2, false));
            let named: [Vec<(String, Vec<(String, f64)>)>; 2] = base.map(|side| {
                side.into_iter()
                    .map(|(info, acts)| {
                        let tot: f64 = acts.iter().map(|(_, w)| w).sum();
                        let acts = acts
                            .into_iter()
                            .map(|(a, w)| (a, if variant == 0 { ((w / tot) * 1e10).floor() / 1e10 } else { w / tot * (1.0 + 3e-10) }))
                            .collect();
                        (info, acts)
                    })
                    .collect()
            });
            if let Ok(strat) = game.from_named(named) {
                events += record_profile(&mut out, &game, &strat, "imported-near-one");
                runs += 1;
            }
        }
        // solver output
        let method = [SolveMethod::Full, SolveMethod::Sampled, SolveMethod::External][(id % 3) as usize];
        let iters = [0u64, 1, 5, 50][((id / 3) % 4) as usize];
        cfr::verif::reset();
        cfr::verif::set_draw_seed(Some(seed.wrapping_add(id)));
        let (strat, _) = game.solve(method, iters, 0.0, 1, None).expect("solve");
        cfr::verif::reset();
        events += record_profile(&mut out, &game, &strat, "solved");
        runs += 1;
        // ... and from the several-thread code path (its own conversion of the accumulators into a profile)
        cfr::verif::set_draw_seed(Some(seed.wrapping_add(id)));
        match game.solve(method, iters, 0.0, 2, None) {
            Ok((strat2, _)) => {
                cfr::verif::reset();
                events += record_profile(&mut out, &game, &strat2, "solved-two-threads");
                runs += 1;
            }
            Err(e) => {
                cfr::verif::reset();
                failed.push(json!({"what": "solve with two threads failed on a valid game", "error": format!("{e:?}"), "tree": t}));
            }
        }
        // ... and of a run whose average-strategy mass is a subnormal number (one iteration discounted by (1/2)^1040: legal
        // parameters; the profile is the normalised mass all the same)
        for k in [1usize, 2] {
            cfr::verif::set_draw_seed(Some(seed.wrapping_add(id)));
            let par = cfr::RegretParams::new(1.5, 0.0, 1040.0, f64::INFINITY);
            match util::catch(std::panic::AssertUnwindSafe(|| game.solve(method, 1, 0.0, k, Some(par)))) {
                Ok(Ok((strat3, _))) => {
                    cfr::verif::reset();
                    events += record_profile(&mut out, &game, &strat3, "solved-vanishing-mass");
                    runs += 1;
                }
                other => {
                    cfr::verif::reset();
                    failed.push(json!({"what": "solve with a strategy discount of 1040 failed on a valid game", "error": format!("{:?}", other.map(|r| r.map(|_| ()))), "tree": t}));
                }
            }
        }
        if samples.len() < 2 {
            samples.push(json!({"tree": t, "method": format!("{method:?}"), "iters": iters}));
        }
    }
    println!("{}", json!({"runs": runs, "events": events, "samples": samples, "failed": failed}));
}
