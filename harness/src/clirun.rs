//! C15 / C16 / C17: drive the built `cfr` binary with rendered documents, record every run as a
//! case for spec/MC_Cli.tla, and judge the runs against TLC's verdicts (`replay cli`).
use crate::cfr::{self, verif, PlayerNum};
use crate::cli::{self, DKid, DNode, Doc, Style};
use crate::rng::Rng;
use crate::tree::{self, GenCfg, Num, Tree};
use crate::util::{self, Args, Out};
use crate::zoo;
use serde_json::{json, Value};
use std::collections::BTreeMap;
use std::time::Duration;

const METHODS: [&str; 3] = ["full", "sampled", "external"];
const DISCOUNTS: [&str; 5] = ["vanilla", "lcfr", "cfr-plus", "dcfr", "dcfr-prune"];

fn lib_preset(d: &str) -> Value {
    cfr::preset(match d {
        "cfr-plus" => "cfr_plus",
        "dcfr-prune" => "dcfr_prune",
        other => other,
    })
}

/// the tree in the order in which the tool reads it: actions sorted by name
fn cli_order(t: &Tree) -> Tree {
    match t {
        Tree::T { .. } => t.clone(),
        Tree::C { ci, kids } => Tree::C { ci: ci.clone(), kids: kids.iter().map(|k| tree::CKid { w: k.w.clone(), t: cli_order(&k.t) }).collect() },
        Tree::P { pl, info, kids } => {
            let mut ks: Vec<tree::PKid> = kids.iter().map(|k| tree::PKid { a: k.a.clone(), t: cli_order(&k.t) }).collect();
            ks.sort_by(|x, y| x.a.cmp(&y.a));
            Tree::P { pl: *pl, info: info.clone(), kids: ks }
        }
    }
}

fn corpus(seed: u64, n: u64, max_nodes: usize) -> Vec<(String, Tree)> {
    let mut games: Vec<(String, Tree)> = zoo::all()
        .into_iter()
        .filter(|(name, _)| ["pennies", "kuhn", "rare", "dominated", "lonely", "flat", "chain3", "chain4", "shared4", "twodice"].contains(&name.as_str()))
        .collect();
    let mut rng = Rng::new(seed ^ 0xc15);
    for id in 0..n {
        let mut r = rng.fork();
        let cfg = GenCfg {
            max_depth: 2 + (id % 3) as usize,
            max_nodes,
            max_infos: 3,
            max_actions: 3,
            max_pure: 30,
            pay_lo: -50,
            pay_hi: 50,
            dyadic: id % 2 == 0,
            degenerate: 0.15,
            ..GenCfg::default()
        };
        let mut t = tree::gen_tree(&mut r, &cfg);
        tree::shorten(&mut t);
        if id % 3 == 1 {
            special_action_names(&mut t);
        }
        games.push((format!("rand{id}"), t));
    }
    games
}

/// action names with characters that need escaping in both input formats (and come back in the printed strategies)
fn special_action_names(t: &mut Tree) {
    match t {
        Tree::T { .. } => {}
        Tree::C { kids, .. } => kids.iter_mut().for_each(|k| special_action_names(&mut k.t)),
        Tree::P { kids, .. } => kids.iter_mut().for_each(|k| {
            let h = k.a.bytes().fold(0u32, |x, b| x.wrapping_mul(31).wrapping_add(b as u32));
            k.a = match h % 3 {
                0 => format!("{} \"q\"", k.a),
                1 => format!("{}\\b", k.a),
                _ => k.a.clone(),
            };
            special_action_names(&mut k.t)
        }),
    }
}

/// printed strategies -> [[info, [[action, n, d], ...]], ...] per player with exactness flag
fn strat_rows(printed: &Value) -> (Value, bool) {
    let mut exact = true;
    let mut sides = Vec::new();
    for key in ["player_one_strategy", "player_two_strategy"] {
        let mut rows = Vec::new();
        if let Some(m) = printed[key].as_object() {
            for (info, acts) in m.iter() {
                let mut es = Vec::new();
                if let Some(am) = acts.as_object() {
                    for (a, p) in am.iter() {
                        let x = p.as_f64().unwrap_or(f64::NAN);
                        match util::reconstruct(x, 30000) {
                            Some((n, d)) => es.push(json!([a, n, d])),
                            None => {
                                exact = false;
                                // micro-units (at least one when positive): only names and signs are judged from these
                                let n = (x * 1e6).round() as i64;
                                es.push(json!([a, if x > 0.0 { n.max(1) } else { n }, 1000000]));
                            }
                        }
                    }
                }
                rows.push(json!([info, es]));
            }
        }
        sides.push(Value::Array(rows));
    }
    (Value::Array(sides), exact)
}

struct Rendered {
    fmt: &'static str,
    text: String,
    doc: Option<Doc>,
    /// shown infoset name -> label of the raw tree
    names: [BTreeMap<String, String>; 2],
    sum: i64,
    scale: i64,
    /// the JSON document as written (model of JsonDsl.tla), for fmt "jdoc"
    jdoc: Option<Value>,
    /// the unit of the payoffs written in the text (1 unless the literals carry an exponent suffix)
    mult: f64,
}

fn render(t: &Tree, fmt: &'static str, rng: &mut Rng, style: Option<Style>) -> Rendered {
    if fmt == "json" {
        let mut names = [BTreeMap::new(), BTreeMap::new()];
        for pl in 0..2 {
            let (mut m, mut s) = (BTreeMap::new(), BTreeMap::new());
            t.infos(pl as u8 + 1, &mut m);
            t.singles(pl as u8 + 1, &mut s);
            for k in m.keys().chain(s.keys()) {
                names[pl].insert(k.clone(), k.clone());
            }
        }
        Rendered { fmt, text: cli::render_json(t).to_string(), doc: None, names, sum: 0, scale: 1, jdoc: None, mult: 1.0 }
    } else {
        let style = style.unwrap_or_else(|| {
            let (sum, scale) = *rng.pick(&[(0i64, 1i64), (2, 1), (-6, 1), (2, 4), (10, 1), (-2, 2)]);
            Style { sum, scale, interior: 0.3, share: 0.4, unnamed: 0.4, by_reference: 0.5, shuffle: true }
        });
        let doc = cli::to_doc(t, &style, rng);
        let names = cli::shown_to_label(t, &doc);
        Rendered { fmt, text: cli::render_efg(&doc, rng), names, sum: style.sum, scale: style.scale, doc: Some(doc), jdoc: None, mult: 1.0 }
    }
}

struct Route {
    flag: &'static str,
    src: &'static str,
    ext: &'static str,
    to_file: bool,
}

struct Observed {
    exit: Option<i32>,
    timed_out: bool,
    stderr_cat: &'static str,
    stderr_head: String,
    stdout_empty: bool,
    outfile: bool,
    printed: Value,
    raw: String,
}

fn execute(exe: &str, dir: &str, id: u64, text: &str, route: &Route, opts: &[String]) -> (Observed, Vec<String>) {
    let mut args: Vec<String> = opts.to_vec();
    if route.flag != "default" {
        args.push("--input-format".into());
        args.push(route.flag.into());
    }
    // some inputs start with blank lines / indentation (both formats allow leading white space)
    let padded;
    // (chosen by a hash of the run number, so that it does not run in step with the cycles of routes and formats)
    let text = if (id.wrapping_mul(0x9E37_79B9_7F4A_7C15) >> 33) % 3 == 0 {
        padded = format!("{}{text}", ["\n  \t", "\n", " ", "\r\n"][(id % 4) as usize]);
        padded.as_str()
    } else {
        text
    };
    let inpath = format!("{dir}/in{id}{}", route.ext);
    let outpath = format!("{dir}/out{id}.json");
    let _ = std::fs::remove_file(&outpath);
    // every other run to a file finds an older, longer result at the destination: the new result must replace it
    let prefill = if route.to_file && id % 2 == 0 {
        let old = format!("{{\"regret\":0.5,\"player_one_utility\":0.0,\"player_two_utility\":0.0,\"old\":\"{}\"}}\n", "x".repeat(65536));
        std::fs::write(&outpath, &old).unwrap();
        Some(old)
    } else {
        None
    };
    let stdin = if route.src == "stdin" {
        Some(text)
    } else {
        std::fs::write(&inpath, cli::raw_bytes(text)).unwrap();
        match id % 3 {
            0 => args.push(format!("--input={inpath}")),
            1 => {
                args.push("--input".into());
                args.push(inpath.clone());
            }
            _ => {
                args.push("-i".into());
                args.push(inpath.clone());
            }
        }
        None
    };
    if route.to_file {
        if id % 4 == 1 {
            args.push(format!("--output={outpath}"));
        } else {
            args.push(if id % 4 == 2 { "--output" } else { "-o" }.into());
            args.push(outpath.clone());
        }
    } else if route.src == "stdin" && id % 7 == 0 {
        // "-" is the documented default of both: standard input / standard output
        args.push("-i".into());
        args.push("-".into());
        args.push("--output".into());
        args.push("-".into());
    }
    let mut run = cli::run_cli(exe, &args, stdin, Duration::from_secs(60));
    if run.timed_out {
        // once more with four times the time before it is called a hang (a loaded machine must not produce an alarm)
        if let Some(old) = &prefill {
            std::fs::write(&outpath, old).unwrap();
        } else {
            let _ = std::fs::remove_file(&outpath);
        }
        run = cli::run_cli(exe, &args, stdin, Duration::from_secs(240));
    }
    let raw = if route.to_file { std::fs::read_to_string(&outpath).unwrap_or_default() } else { run.stdout.clone() };
    // "something was written to the destination": a file appeared, or the older result was replaced by other content
    let outfile = match &prefill {
        None => std::path::Path::new(&outpath).exists(),
        Some(old) => !raw.is_empty() && raw != *old,
    };
    let printed: Value = serde_json::from_str(raw.trim()).unwrap_or(Value::Null);
    let _ = std::fs::remove_file(&inpath);
    let _ = std::fs::remove_file(&outpath);
    (
        Observed {
            exit: run.status,
            timed_out: run.timed_out,
            stderr_cat: cli::category(&run.stderr),
            stderr_head: run.stderr.chars().take(300).collect(),
            stdout_empty: run.stdout.trim().is_empty(),
            outfile,
            printed,
            raw,
        },
        args,
    )
}

/// the library's own answer for the same options (unsampled method only): named strategies
fn reference(t: &Tree, d: &str, budget: u64, max_reg: f64, threads: usize, clip: f64) -> Result<Value, String> {
    let t2 = cli_order(t);
    let par = lib_preset(d);
    util::catch(move || {
        let game = tree::build(&t2).map_err(|e| format!("{e:?}"))?;
        verif::reset();
        let (mut strat, bounds) = game
            .solve(cfr::method("Full"), if budget == 0 { u64::MAX } else { budget }, max_reg, threads, Some(cfr::params(&par)))
            .map_err(|e| format!("{e:?}"))?;
        let bound = bounds.regret_bound();
        let before = strat.get_info().regret();
        let mut pruned = strat.clone();
        pruned.truncate(clip);
        let after = pruned.get_info().regret();
        let clipped = after < before;
        if clipped {
            strat = pruned;
        }
        let [one, two] = strat.as_named();
        let conv = |it: &mut dyn Iterator<Item = (String, Vec<(String, f64)>)>| -> Value {
            let mut m = serde_json::Map::new();
            for (info, acts) in it {
                let mut am = serde_json::Map::new();
                for (a, p) in acts {
                    am.insert(a, json!(p));
                }
                m.insert(info, Value::Object(am));
            }
            Value::Object(m)
        };
        let one: Vec<(String, Vec<(String, f64)>)> = one.map(|(i, a)| (i.clone(), a.map(|(x, p)| (x.clone(), p)).collect())).collect();
        let two: Vec<(String, Vec<(String, f64)>)> = two.map(|(i, a)| (i.clone(), a.map(|(x, p)| (x.clone(), p)).collect())).collect();
        Ok(json!({"one": conv(&mut one.into_iter()), "two": conv(&mut two.into_iter()), "clipped": clipped,
            "regret_before": before, "regret_after": after, "bound": bound}))
    })
    .and_then(|r| r)
}

fn rat_of(x: f64) -> Value {
    match util::reconstruct(x, 30000) {
        Some((n, d)) => json!([n, d]),
        None => json!([0, 0]),
    }
}

struct Sink {
    tlc: Out,
    full: Out,
    id: u64,
}

#[allow(clippy::too_many_arguments)]
fn emit_out(sink: &mut Sink, mode: &str, game: &str, t: &Tree, r: &Rendered, route: &Route, opts: &BTreeMap<&str, String>, obs: &Observed,
            argv: &[String], group: Option<(u64, f64, bool)>, refsol: Option<Value>) {
    sink.id += 1;
    let id = sink.id;
    let ok_object = obs.printed.is_object();
    let (strat, exact) = if ok_object { strat_rows(&obs.printed) } else { (json!([[], []]), false) };
    let clip: f64 = opts.get("c").map_or(0.0, |s| s.parse().unwrap());
    let args = json!({"m": opts.get("m").cloned().unwrap_or("external".into()), "d": opts.get("d").cloned().unwrap_or("dcfr".into()),
        "t": opts.get("t").map_or(1000, |s| s.parse::<i64>().unwrap()), "c": rat_of(clip),
        "r": rat_of(opts.get("r").map_or(0.0, |s| s.parse().unwrap()))});
    let clip_exact = clip == 0.0 || util::reconstruct(clip, 30000).is_some();
    if ok_object && obs.exit == Some(0) {
        let mut c = json!({"id": id, "kind": "out", "fmt": r.fmt, "strat": strat, "exact": exact, "args": args});
        if group.map_or(false, |g| g.2) {
            // later routes of a group must print what the first one prints (checked by `replay cli`): the
            // specification predicts the solution once per group
            c["args"]["m"] = json!(format!("{}-same-as-first-of-group", c["args"]["m"].as_str().unwrap()));
        }
        if !clip_exact {
            // the model cannot reproduce a clip threshold that is not a small rational
            c["args"]["m"] = json!(format!("{}-inexact-clip", c["args"]["m"].as_str().unwrap()));
        }
        match &r.doc {
            Some(d) => c["doc"] = serde_json::to_value(d).unwrap(),
            None => {
                // float payoffs k/1024 travel to the specification as integers with a scale
                let mut pays = Vec::new();
                t.payoffs(&mut pays);
                let unit = if pays.iter().all(|x| x.fract() == 0.0) { 1 } else { 1024 };
                c["scale"] = json!(unit);
                match &r.jdoc {
                    // the specification derives the tree from the document as written (JsonDsl.tla)
                    Some(j) => {
                        c["jdoc"] = j.clone();
                        c["wscale"] = json!(1);
                    }
                    None => c["tree"] = serde_json::to_value(scaled(t, unit)).unwrap(),
                }
            }
        }
        sink.tlc.line(&c);
    }
    sink.full.line(&json!({"id": id, "kind": "out", "mode": mode, "game": game, "fmt": r.fmt, "argv": argv, "opts": opts,
        "route": {"flag": route.flag, "src": route.src, "ext": route.ext, "to_file": route.to_file},
        "exit": obs.exit, "timed_out": obs.timed_out, "stderr_cat": obs.stderr_cat, "stderr": obs.stderr_head,
        "printed": obs.printed, "raw_len": obs.raw.len(), "tree": t, "names": r.names, "sum": r.sum, "scale": r.scale, "mult": r.mult,
        "group": group.map(|g| g.0), "group_tol": group.map(|g| g.1), "ref": refsol, "text": if r.text.len() < 4000 { r.text.clone() } else { String::new() }}));
}

/// the options as command-line words.  The help text documents a short and a long name for each and a default: every
/// option is written `-k v`, `--name v` or `--name=v`, or left out when its value is the documented default (chosen by a
/// hash of the option values, so that a run is reproducible from its options)
fn opt_vec(opts: &BTreeMap<&str, String>) -> Vec<String> {
    let mut h: u64 = 0xcbf2_9ce4_8422_2325;
    for (k, val) in opts.iter() {
        for b in k.bytes().chain(val.bytes()) {
            h = (h ^ b as u64).wrapping_mul(0x1000_0000_01b3);
        }
    }
    let mut v = Vec::new();
    for (j, (k, val)) in opts.iter().enumerate() {
        let (long, default) = match *k {
            "c" => ("clip-threshold", "0"),
            "r" => ("max-regret", "0"),
            "t" => ("max-iters", "1000"),
            "p" => ("parallel", "0"),
            "m" => ("method", "external"),
            "d" => ("discount", "dcfr"),
            other => panic!("option {other}"),
        };
        match (h >> (8 + 3 * j)) % 5 {
            0 => v.push(format!("--{long}={val}")),
            1 => {
                v.push(format!("--{long}"));
                v.push(val.clone());
            }
            2 if val == default => {}
            _ => {
                v.push(format!("-{k}"));
                v.push(val.clone());
            }
        }
    }
    v
}

/// payoffs k/1024 without ties: exactly representable in both parsers
fn dyadic_generic(t: &mut Tree, rng: &mut Rng) {
    t.map_pay(&mut |_| Num::F(rng.range(-5 * 1024, 5 * 1024) as f64 / 1024.0));
}

pub fn record(args: &Args) {
    let seed = args.num("seed", 1);
    let n = args.num("n", 10);
    let mode = args.get("mode").to_string();
    let exe = args.get("exe").to_string();
    let dir = args.get("dir").to_string();
    let thorough = args.get_or("thorough", "0") == "1";
    std::fs::create_dir_all(&dir).unwrap();
    let mut sink = Sink { tlc: Out::create(args.get("out-tlc")), full: Out::create(args.get("out-full")), id: 0 };
    let mut rng = Rng::new(seed ^ 0xc1);
    let games = corpus(seed, n, 18);
    let mut runs = 0usize;
    match mode.as_str() {
        "c15" => {
            let per_game = if thorough { 12 } else { 5 };
            for (name, t) in games.iter() {
                for j in 0..per_game {
                    let fmt = if j % 5 == 1 || j % 5 == 3 { "json" } else { "efg" };
                    let r = render(t, fmt, &mut rng, None);
                    let mut opts: BTreeMap<&str, String> = BTreeMap::new();
                    opts.insert("m", rng.pick(&METHODS).to_string());
                    opts.insert("d", rng.pick(&DISCOUNTS).to_string());
                    opts.insert("t", rng.pick(&["1", "2", "3", "1000"]).to_string());
                    opts.insert("p", rng.pick(&["1", "2", "0"]).to_string());
                    opts.insert("c", rng.pick(&["0", "0.05", "0.6", "0.25", "0.5"]).to_string());
                    // (source and destination by lot: a fixed pattern in j runs in step with the pattern of formats)
                    let route = Route { flag: "default", src: if rng.chance(0.5) { "file" } else { "stdin" }, ext: if fmt == "json" { ".json" } else { ".efg" }, to_file: rng.chance(0.3) };
                    let (obs, argv) = execute(&exe, &dir, sink.id + 1, &r.text, &route, &opt_vec(&opts));
                    emit_out(&mut sink, &mode, name, t, &r, &route, &opts, &obs, &argv, None, None);
                    runs += 1;
                }
            }
            // HUGE UNIT: Gambit texts whose payoff literals are integers times 1e305 with the constant sum 1900 units: every
            // payoff fits a double (at most 1e308), the sum of a pair (1.9e308) does not.  The model sees the integers; the
            // printed numbers are read in the same unit.  Sampled methods or a long budget (no exact prediction: the shifted
            // payoffs carry rounding errors of 1e-13 units)
            let mut done = 0;
            for (name, t) in games.iter() {
                let mut big = 0f64;
                t.clone().map_pay(&mut |p| {
                    big = big.max(p.f().abs());
                    p.clone()
                });
                let integral = {
                    let mut all = true;
                    t.clone().map_pay(&mut |p| {
                        all &= matches!(p, Num::I(_));
                        p.clone()
                    });
                    all
                };
                if big > 45.0 || !integral || done >= if thorough { 12 } else { 4 } {
                    continue;
                }
                done += 1;
                let style = Style { sum: 1900, scale: 1, interior: 0.0, share: 0.3, unnamed: 0.3, by_reference: 0.5, shuffle: true };
                cli::set_efg_suffix("e305");
                let mut r = render(t, "efg", &mut rng, Some(style));
                cli::set_efg_suffix("");
                r.mult = 1e305;
                let mut opts: BTreeMap<&str, String> = BTreeMap::new();
                opts.insert("m", ["sampled", "external", "full"][done % 3].to_string());
                opts.insert("d", rng.pick(&DISCOUNTS).to_string());
                opts.insert("t", "1000".to_string());
                opts.insert("p", rng.pick(&["1", "2"]).to_string());
                let route = Route { flag: if done % 2 == 0 { "default" } else { "gambit" }, src: if done % 2 == 0 { "file" } else { "stdin" }, ext: ".efg", to_file: false };
                let (obs, argv) = execute(&exe, &dir, sink.id + 1, &r.text, &route, &opt_vec(&opts));
                emit_out(&mut sink, &mode, &format!("{name}-huge-unit"), t, &r, &route, &opts, &obs, &argv, None, None);
                runs += 1;
            }
        }
        "c15" if false => {}
        "c16" => {
            let mut group = 0u64;
            for (gi, (name, t0)) in games.iter().enumerate() {
                // integer payoffs for one thread (bitwise comparisons, exact model), dyadic generic ones otherwise
                for variant in 0..2 {
                    let mut t = t0.clone();
                    let threads_list: &[&str] = if variant == 0 { &["1"] } else { &["2", "4", "0"] };
                    if variant == 1 {
                        dyadic_generic(&mut t, &mut rng);
                    }
                    let unit = if variant == 0 { 1 } else { 1024 };
                    let style = Style { sum: *rng.pick(&[0i64, 2, -6]) * unit, scale: 1, interior: 0.3, share: 0.3, unnamed: 0.3, by_reference: 0.5, shuffle: true };
                    let tz = if variant == 1 { scaled(&t, 1024) } else { t.clone() };
                    let mut efg = render(&tz, "efg", &mut rng, Some(style));
                    if variant == 1 {
                        // the document's payoffs are integers in units of 1/1024
                        let mut doc = efg.doc.take().unwrap();
                        doc.scale = 1024;
                        efg.text = cli::render_efg(&doc, &mut rng);
                        efg.doc = Some(doc);
                        efg.scale = 1024;
                    }
                    let js = render(&t, "json", &mut rng, None);
                    let budgets: &[&str] = &["1", "2", "3", "50"];
                    for (bi, budget) in budgets.iter().enumerate() {
                        let d = DISCOUNTS[(gi + bi + variant) % 5];
                        let threads = threads_list[(gi + bi) % threads_list.len()];
                        let nthreads: usize = threads.parse().unwrap();
                        // a threshold that stops early on some games
                        let maxreg = if bi % 2 == 1 { "0.5" } else { "0" };
                        let base = reference(&t, d, budget.parse().unwrap(), maxreg.parse().unwrap(), if nthreads == 0 { 1 } else { nthreads }, 0.0);
                        // clip thresholds below / at / above printed probabilities
                        let mut clips: Vec<String> = vec!["0".into()];
                        if let Ok(b) = &base {
                            let mut ps: Vec<f64> = Vec::new();
                            for side in ["one", "two"] {
                                for (_, acts) in b[side].as_object().unwrap() {
                                    for (_, p) in acts.as_object().unwrap() {
                                        let x = p.as_f64().unwrap();
                                        if x < 1.0 {
                                            ps.push(x);
                                        }
                                    }
                                }
                            }
                            ps.sort_by(|a, b| a.partial_cmp(b).unwrap());
                            ps.dedup();
                            if !ps.is_empty() {
                                let p = ps[(gi + bi) % ps.len()];
                                // a threshold AT a probability only with one thread: with several threads the
                                // summation order may move the probability by an ulp (DESIGN 3.4)
                                if variant == 0 {
                                    clips.push(format!("{p}"));
                                }
                                clips.push(format!("{}", p * 0.99));
                                clips.push(format!("{}", p * 1.01));
                            }
                            clips.push("0.6".into());
                        }
                        // quick: the threshold 0.6 (removes every minority action: the pruned profile often has the
                        // SAME regret, which is where "strictly lower" matters) and one of the others in turn
                        let chosen: Vec<String> = if thorough || clips.len() <= 2 {
                            clips.clone()
                        } else {
                            vec![clips[(gi + bi) % (clips.len() - 1)].clone(), clips[clips.len() - 1].clone()]
                        };
                        for (ci, clip) in chosen.iter().enumerate() {
                            let clip = clip.clone();
                            let clipv: f64 = clip.parse().unwrap();
                            group += 1;
                            let refsol = reference(&t, d, budget.parse().unwrap(), maxreg.parse().unwrap(), if nthreads == 0 { 1 } else { nthreads }, clipv).ok();
                            let mut opts: BTreeMap<&str, String> = BTreeMap::new();
                            opts.insert("m", "full".into());
                            opts.insert("d", d.to_string());
                            opts.insert("t", budget.to_string());
                            opts.insert("p", threads.to_string());
                            opts.insert("r", maxreg.to_string());
                            opts.insert("c", clip.clone());
                            let routes = [
                                (&efg, Route { flag: "default", src: "file", ext: ".efg", to_file: false }),
                                (&efg, Route { flag: "auto", src: "file", ext: ".txt", to_file: false }),
                                (&efg, Route { flag: "gambit", src: "stdin", ext: "", to_file: true }),
                                (&efg, Route { flag: "default", src: "stdin", ext: "", to_file: false }),
                                (&js, Route { flag: "default", src: "file", ext: ".json", to_file: false }),
                                (&js, Route { flag: "auto", src: "stdin", ext: "", to_file: false }),
                                (&js, Route { flag: "json", src: "file", ext: ".txt", to_file: true }),
                                (&js, Route { flag: "default", src: "file", ext: ".dat", to_file: false }),
                                // an explicit format wins over a misleading file name
                                (&efg, Route { flag: "gambit", src: "file", ext: ".json", to_file: false }),
                                (&js, Route { flag: "json", src: "file", ext: ".efg", to_file: false }),
                            ];
                            let nroutes = if thorough { routes.len() } else { 4 };
                            for k in 0..nroutes {
                                let (r, route) = &routes[(k * 3 + gi + ci) % routes.len()];
                                let (obs, argv) = execute(&exe, &dir, sink.id + 1, &r.text, route, &opt_vec(&opts));
                                let tol = if threads == "1" { 1e-12 } else { 1e-9 };
                                emit_out(&mut sink, &mode, name, &t, r, route, &opts, &obs, &argv, Some((group, tol, k > 0)), refsol.clone());
                                runs += 1;
                            }
                        }
                    }
                    // DEFAULTS: budget, discount and clip threshold left out (documented defaults: 1000 iterations, dcfr, 0)
                    // with a regret threshold the default budget does not reach - half the bound after 1000 iterations -: the
                    // run must be the library's 1000-iteration run
                    if variant == 0 {
                        if let Ok(base) = reference(&t, "dcfr", 1000, 0.0, 1, 0.0) {
                            let b = base["bound"].as_f64().unwrap_or(0.0);
                            if b.is_finite() && b > 1e-6 {
                                let r = format!("{}", b * 0.5);
                                group += 1;
                                let refsol = reference(&t, "dcfr", 1000, r.parse().unwrap(), 1, 0.0).ok();
                                let mut opts: BTreeMap<&str, String> = BTreeMap::new();
                                opts.insert("m", "full".into());
                                opts.insert("p", "1".into());
                                opts.insert("r", r);
                                let routes = [(&efg, Route { flag: "default", src: "stdin", ext: "", to_file: false }), (&js, Route { flag: "default", src: "file", ext: ".json", to_file: false })];
                                let (rd, route) = &routes[gi % 2];
                                let (obs, argv) = execute(&exe, &dir, sink.id + 1, &rd.text, route, &opt_vec(&opts));
                                emit_out(&mut sink, &mode, name, &t, rd, route, &opts, &obs, &argv, Some((group, 1e-12, false)), refsol);
                                runs += 1;
                            }
                        }
                    }
                }
            }
        }
        "cjson-meaning" => record_cjson(&mut sink, &exe, &dir, &games, &mut rng, thorough, &mut runs, true),
        "cjson-faults" => record_cjson(&mut sink, &exe, &dir, &games, &mut rng, thorough, &mut runs, false),
        _ => record_c17(&mut sink, &exe, &dir, &games, &mut rng, thorough, &mut runs),
    }
    println!("{}", json!({"runs": runs, "games": games.len()}));
}

/// multiply integer-valued float payoffs k/1024 to integers (the document carries scale 1024)
fn scaled(t: &Tree, by: i64) -> Tree {
    let mut t2 = t.clone();
    t2.map_pay(&mut |p| Num::I((p.f() * by as f64).round() as i64));
    t2
}

// ------------------------------------------------------------------------------------------ C17
fn nodes_mut<'a>(n: &'a mut DNode, out: &mut Vec<*mut DNode>) {
    out.push(n as *mut DNode);
    match n {
        DNode::T { .. } => {}
        DNode::C { kids, .. } | DNode::P { kids, .. } => kids.iter_mut().for_each(|k| nodes_mut(&mut k.t, out)),
    }
}

/// apply one fault of the catalogue to a valid document; None if not applicable
fn fault(doc: &Doc, kind: &str, rng: &mut Rng) -> Option<Doc> {
    let mut d = doc.clone();
    let mut ptrs = Vec::new();
    nodes_mut(&mut d.root, &mut ptrs);
    // SAFETY: the pointers address distinct nodes of `d`, which outlives this function body; only one is dereferenced at a time
    let pick = |rng: &mut Rng, f: &dyn Fn(&DNode) -> bool| -> Option<*mut DNode> {
        let c: Vec<*mut DNode> = ptrs.iter().copied().filter(|p| f(unsafe { &**p })).collect();
        if c.is_empty() {
            None
        } else {
            Some(*rng.pick(&c))
        }
    };
    let is_c = |n: &DNode| matches!(n, DNode::C { kids, .. } if kids.len() >= 2);
    let is_p = |n: &DNode| matches!(n, DNode::P { .. });
    let is_t = |n: &DNode| matches!(n, DNode::T { .. });
    match kind {
        "prob-zero" | "prob-negative" | "prob-sum" => {
            let p = pick(rng, &is_c)?;
            if let DNode::C { kids, .. } = unsafe { &mut *p } {
                // over a common denominator
                let l: i64 = kids.iter().fold(1, |a, k| a / gcd(a, k.pd) * k.pd);
                for k in kids.iter_mut() {
                    k.pn *= l / k.pd;
                    k.pd = l;
                }
                let moved = if kind == "prob-zero" { kids[0].pn } else { kids[0].pn + 1 };
                if kind != "prob-sum" {
                    kids[1].pn += moved;
                }
                kids[0].pn -= moved;
                if kind == "prob-sum" {
                    kids[0].pn += moved + 1;
                }
            }
        }
        "three-players" | "one-player" => {
            let np = if kind == "three-players" { 3 } else { 1 };
            d.players = np;
            for p in ptrs.iter() {
                match unsafe { &mut **p } {
                    DNode::T { pays, .. } | DNode::C { pays, .. } | DNode::P { pays, .. } => {
                        if !pays.is_empty() {
                            pays.resize(np as usize, 0);
                        }
                    }
                }
            }
        }
        "perturb-small" | "perturb-mid" | "perturb-large" | "flat-one" => {
            // rescale so that fractions of the payoff range are integral
            for p in ptrs.iter() {
                match unsafe { &mut **p } {
                    DNode::T { pays, .. } | DNode::C { pays, .. } | DNode::P { pays, .. } => pays.iter_mut().for_each(|x| *x *= 2000),
                }
            }
            d.scale *= 2000;
            if kind == "flat-one" {
                // player one receives the same at every play, player two's payoff varies
                for p in ptrs.iter() {
                    match unsafe { &mut **p } {
                        DNode::T { pays, .. } => pays[0] = 0,
                        DNode::C { pays, .. } | DNode::P { pays, .. } => {
                            if !pays.is_empty() {
                                pays[0] = 0
                            }
                        }
                    }
                }
            } else {
                let range = one_range(&d);
                if range == 0 {
                    return None;
                }
                let delta = match kind {
                    "perturb-small" => range / 2000,
                    "perturb-mid" => range * 3 / 2000,
                    _ => range / 200,
                };
                let p = pick(rng, &is_t)?;
                if let DNode::T { out, pays } = unsafe { &mut *p } {
                    pays[1] += delta.max(1);
                    *out = 900000; // a fresh outcome so that shared outcomes stay consistent
                }
            }
        }
        "unnamed-clash" | "given-clash" | "cross-player-name" => {
            // two different infosets of one player (or of the two players)
            let mut keys: Vec<(i64, i64)> = Vec::new();
            for p in ptrs.iter() {
                if let DNode::P { pl, iset, .. } = unsafe { &**p } {
                    if !keys.contains(&(*pl, *iset)) {
                        keys.push((*pl, *iset));
                    }
                }
            }
            let (a, b) = if kind == "cross-player-name" {
                let a = *keys.iter().find(|k| k.0 == 1)?;
                let b = *keys.iter().find(|k| k.0 == 2)?;
                (a, b)
            } else {
                let pl = if keys.iter().filter(|k| k.0 == 1).count() >= 2 { 1 } else { 2 };
                let same: Vec<(i64, i64)> = keys.iter().copied().filter(|k| k.0 == pl).collect();
                if same.len() < 2 {
                    return None;
                }
                (same[0], same[1])
            };
            for p in ptrs.iter() {
                if let DNode::P { pl, iset, name, .. } = unsafe { &mut **p } {
                    if (*pl, *iset) == a {
                        *name = if kind == "unnamed-clash" { String::new() } else { "same".to_string() };
                    } else if (*pl, *iset) == b {
                        *name = if kind == "unnamed-clash" { a.1.to_string() } else { "same".to_string() };
                    }
                }
            }
        }
        "recall" => {
            // give a decision node the information set of another node of the same player with the same number of actions
            let p = pick(rng, &is_p)?;
            let (pl0, iset0, n0) = match unsafe { &*p } {
                DNode::P { pl, iset, kids, .. } => (*pl, *iset, kids.len()),
                _ => return None,
            };
            let q = pick(rng, &|n: &DNode| matches!(n, DNode::P { pl, iset, kids, .. } if *pl == pl0 && *iset != iset0 && kids.len() == n0 && n0 >= 2))?;
            let acts: Vec<String> = match unsafe { &*p } {
                DNode::P { kids, .. } => kids.iter().map(|k| k.a.clone()).collect(),
                _ => return None,
            };
            if let DNode::P { iset, name, kids, .. } = unsafe { &mut *q } {
                *iset = iset0;
                *name = String::new();
                for (k, a) in kids.iter_mut().zip(acts.iter()) {
                    k.a = a.clone();
                }
            }
        }
        "dup-action" => {
            let p = pick(rng, &|n: &DNode| matches!(n, DNode::P { kids, .. } if kids.len() >= 2))?;
            let (pl0, iset0) = match unsafe { &*p } {
                DNode::P { pl, iset, .. } => (*pl, *iset),
                _ => return None,
            };
            for r in ptrs.iter() {
                if let DNode::P { pl, iset, kids, .. } = unsafe { &mut **r } {
                    if (*pl, *iset) == (pl0, iset0) {
                        let a = kids[0].a.clone();
                        kids[1].a = a;
                    }
                }
            }
        }
        "undefined-outcome" => {
            let p = pick(rng, &|n: &DNode| !is_t(n))?;
            match unsafe { &mut *p } {
                DNode::C { out, pays, .. } | DNode::P { out, pays, .. } => {
                    *out = 777777;
                    pays.clear();
                }
                _ => {}
            }
        }
        "outcome-conflict" => {
            let p = pick(rng, &is_t)?;
            let q = pick(rng, &|n: &DNode| is_t(n) && !std::ptr::eq(n, unsafe { &*p }))?;
            let (o, py) = match unsafe { &*p } {
                DNode::T { out, pays } => (*out, pays.clone()),
                _ => return None,
            };
            if let DNode::T { out, pays } = unsafe { &mut *q } {
                *out = o;
                *pays = vec![py[0] + 1, py[1] - 1];
            }
        }
        "terminal-null-outcome" => {
            let p = pick(rng, &is_t)?;
            if let DNode::T { out, .. } = unsafe { &mut *p } {
                *out = 0;
            }
        }
        "bad-player-number" => {
            let p = pick(rng, &is_p)?;
            if let DNode::P { pl, iset, .. } = unsafe { &mut *p } {
                *pl = 3;
                *iset = 99;
            }
        }
        _ => return None,
    }
    Some(d)
}

fn gcd(a: i64, b: i64) -> i64 {
    if b == 0 {
        a.abs()
    } else {
        gcd(b, a % b)
    }
}

/// range of player one's total payoffs over all plays (outcomes by reference resolved)
fn one_range(doc: &Doc) -> i64 {
    let mut defs: BTreeMap<i64, Vec<i64>> = BTreeMap::new();
    fn collect(n: &DNode, defs: &mut BTreeMap<i64, Vec<i64>>) {
        match n {
            DNode::T { out, pays } => {
                defs.insert(*out, pays.clone());
            }
            DNode::C { out, pays, kids, .. } | DNode::P { out, pays, kids, .. } => {
                if *out != 0 && !pays.is_empty() {
                    defs.insert(*out, pays.clone());
                }
                kids.iter().for_each(|k| collect(&k.t, defs));
            }
        }
    }
    collect(&doc.root, &mut defs);
    fn walk(n: &DNode, defs: &BTreeMap<i64, Vec<i64>>, cum: i64, lo: &mut i64, hi: &mut i64) {
        let here = |out: &i64| defs.get(out).map_or(0, |p| p[0]);
        match n {
            DNode::T { out, .. } => {
                let v = cum + here(out);
                *lo = (*lo).min(v);
                *hi = (*hi).max(v);
            }
            DNode::C { out, kids, .. } | DNode::P { out, kids, .. } => kids.iter().for_each(|k| walk(&k.t, defs, cum + here(out), lo, hi)),
        }
    }
    let (mut lo, mut hi) = (i64::MAX, i64::MIN);
    walk(&doc.root, &defs, 0, &mut lo, &mut hi);
    hi - lo
}

const FAULTS: [&str; 19] = [
    "bad-player-number",
    "none", "prob-zero", "prob-negative", "prob-sum", "three-players", "one-player", "perturb-small", "perturb-mid", "perturb-large",
    "flat-one", "unnamed-clash", "given-clash", "cross-player-name", "recall", "dup-action", "undefined-outcome", "outcome-conflict",
    "terminal-null-outcome",
];

fn record_c17(sink: &mut Sink, exe: &str, dir: &str, games: &[(String, Tree)], rng: &mut Rng, thorough: bool, runs: &mut usize) {
    let routes = [
        Route { flag: "default", src: "stdin", ext: "", to_file: false },
        Route { flag: "gambit", src: "stdin", ext: "", to_file: false },
        Route { flag: "json", src: "stdin", ext: "", to_file: false },
        Route { flag: "default", src: "file", ext: ".efg", to_file: true },
        Route { flag: "default", src: "file", ext: ".json", to_file: false },
        Route { flag: "auto", src: "file", ext: ".txt", to_file: true },
        Route { flag: "gambit", src: "file", ext: ".json", to_file: false },
        Route { flag: "json", src: "file", ext: ".efg", to_file: false },
    ];
    let opts: Vec<String> = vec!["-m".into(), "full".into(), "-t".into(), "3".into(), "-p".into(), "1".into()];
    let mut case = |sink: &mut Sink, game: &str, what: &str, class: &str, text: &str, doc: Option<&Doc>, route: &Route, runs: &mut usize| {
        let (obs, argv) = execute(exe, dir, sink.id + 1, text, route, &opts);
        sink.id += 1;
        let id = sink.id;
        let mut c = json!({"id": id, "kind": "verdict", "flag": if route.flag == "default" { "auto" } else { route.flag }, "src": route.src, "ext": route.ext, "class": class});
        if let Some(d) = doc {
            c["doc"] = serde_json::to_value(d).unwrap();
        }
        sink.tlc.line(&c);
        sink.full.line(&json!({"id": id, "kind": "verdict", "mode": "c17", "game": game, "fault": what, "class": class, "argv": argv,
            "route": {"flag": route.flag, "src": route.src, "ext": route.ext, "to_file": route.to_file},
            "exit": obs.exit, "timed_out": obs.timed_out, "stderr_cat": obs.stderr_cat, "stderr": obs.stderr_head,
            "stdout_empty": obs.stdout_empty, "outfile": obs.outfile, "printed_is_object": obs.printed.is_object(),
            "text": if text.len() < 3000 { text.to_string() } else { String::new() }}));
        *runs += 1;
    };
    for (gi, (name, t)) in games.iter().enumerate() {
        let style = Style { sum: *rng.pick(&[0i64, 2, -6]), scale: 1, interior: 0.3, share: 0.3, unnamed: 0.3, by_reference: 0.5, shuffle: true };
        let base = cli::to_doc(t, &style, rng);
        let nroutes = if thorough { routes.len() } else { 3 };
        for (fi, f) in FAULTS.iter().enumerate() {
            let Some(doc) = (if *f == "none" { Some(base.clone()) } else { fault(&base, f, rng) }) else { continue };
            let text = cli::render_efg(&doc, rng);
            for k in 0..nroutes {
                let route = &routes[(k * 3 + gi + fi) % routes.len()];
                case(sink, name, f, "efg", &text, Some(&doc), route, runs);
            }
        }
        // text-level faults of the Gambit rendering
        let text = cli::render_efg(&base, rng);
        let cut: String = text.chars().take(text.len() * 3 / 5).collect();
        let mut hdoc = base.clone();
        hdoc.huge = first_terminal_outcome(&hdoc.root);
        let huge = cli::render_efg(&hdoc, rng);
        let nofield = text.replacen(" }", " ", 2);
        // a complete document followed by something else is not a document
        let tail_node = format!("{text}t \"\" 1 {{ 0 0 }}\n");
        let tail_junk = format!("{text}}} trailing\n");
        // a byte that is not UTF-8 inside the first quoted string (a name): not a text in either format
        let bad_utf8 = match text.find('"') {
            Some(i) => format!("{}{}{}", &text[..i + 1], cli::BAD_BYTE, &text[i + 1..]),
            None => format!("{}{text}", cli::BAD_BYTE),
        };
        for (what, class, txt) in [("truncated", "junk", cut), ("huge-payoff", "efg-huge", huge), ("missing-braces", "junk", nofield), ("garbage", "junk", "this is not a game\n".to_string()),
                                   ("trailing-node", "junk", tail_node), ("trailing-junk", "junk", tail_junk), ("invalid-utf8", "junk", bad_utf8)] {
            for k in 0..nroutes.min(4) {
                let route = &routes[(k * 3 + gi) % routes.len()];
                case(sink, name, what, class, &txt, None, route, runs);
            }
        }
        // the JSON rendering and its faults
        let js = cli::render_json(t);
        let good = js.to_string();
        let mut variants: Vec<(&str, &str, String)> = vec![("none", "json-ok", good.clone())];
        variants.push(("truncated", "junk", good.chars().take(good.len() * 3 / 5).collect()));
        if good.contains("\"prob\":") {
            variants.push(("drop-prob", "junk", good.replacen("\"prob\":", "\"probability\":", 1)));
            variants.push(("prob-string", "junk", regex_first_prob(&good, "\"0.5\"")));
            variants.push(("prob-zero", "json-contract", regex_first_prob(&good, "0.0")));
            variants.push(("prob-negative", "json-contract", regex_first_prob(&good, "-1.0")));
        }
        if good.contains("\"player_one\":") {
            variants.push(("drop-infoset", "junk", rename_first_infoset(&js).to_string()));
            variants.push(("player-number", "junk", good.replacen("\"player_one\":true", "\"player_one\":1", 1).replacen("\"player_one\":false", "\"player_one\":2", 1)));
            variants.push(("no-actions", "json-contract", empty_first_actions(&js).to_string()));
        }
        variants.push(("trailing-brace", "junk", format!("{good}}}")));
        if let Some(i) = good.find("\"infoset\":\"") {
            let at = i + "\"infoset\":\"".len();
            variants.push(("invalid-utf8", "junk", format!("{}{}{}", &good[..at], cli::BAD_BYTE, &good[at..])));
        }
        variants.push(("trailing-document", "junk", format!("{good} {good}")));
        variants.push(("trailing-text", "junk", format!("{good}\nEFG 2 R")));
        variants.push(("trailing-space", "json-ok", format!("{good} \n\n")));
        variants.push(("terminal-string", "junk", good.replacen("\"terminal\":", "\"terminal\":\"x\",\"was\":", 1)));
        variants.push(("extra-variant", "junk", format!("{{\"terminal\":0.0,\"chance\":{}}}", "{\"outcomes\":{}}")));
        for (vi, (what, class, txt)) in variants.iter().enumerate() {
            for k in 0..nroutes {
                let route = &routes[(k * 3 + gi + vi) % routes.len()];
                case(sink, name, what, class, txt, None, route, runs);
            }
        }
    }
    // trees that break perfect recall ONLY through the own action (same earlier infoset, different action), for either
    // player, directly and with a move of the other player in between: game-error under every parser
    for (vi, (pl, deep)) in [(1u8, false), (2, false), (1, true), (2, true)].into_iter().enumerate() {
        let t = zoo::forgot_action(pl, deep);
        let style = Style { sum: 0, scale: 1, interior: 0.0, share: 0.0, unnamed: 0.3, by_reference: 0.5, shuffle: true };
        let doc = cli::to_doc(&t, &style, rng);
        let text = cli::render_efg(&doc, rng);
        for k in 0..2 {
            let route = &routes[[1usize, 3, 0, 5][(vi + 2 * k) % 4]];
            case(sink, "forgot-action", "recall-action", "efg", &text, Some(&doc), route, runs);
        }
        let js = cli::render_json(&t).to_string();
        for route in [&routes[2], &routes[4]] {
            case(sink, "forgot-action", "recall-action", "json-contract", &js, None, route, runs);
        }
    }
}

/// JSON documents as written (jdoc.rs / JsonDsl.tla): `meaning` = documents of the grammar and documents that use
/// what the documentation leaves open (verdict and printed solution), otherwise one fault per document (verdict)
#[allow(clippy::too_many_arguments)]
fn record_cjson(sink: &mut Sink, exe: &str, dir: &str, games: &[(String, Tree)], rng: &mut Rng, thorough: bool, runs: &mut usize, meaning: bool) {
    use crate::jdoc;
    let routes = [
        Route { flag: "json", src: "stdin", ext: "", to_file: false },
        Route { flag: "default", src: "file", ext: ".json", to_file: true },
        Route { flag: "auto", src: "file", ext: ".txt", to_file: false },
        Route { flag: "default", src: "stdin", ext: "", to_file: false },
        Route { flag: "json", src: "file", ext: ".efg", to_file: false },
        Route { flag: "gambit", src: "file", ext: ".json", to_file: false },
    ];
    let verdict = |sink: &mut Sink, game: &str, what: &str, doc: &Value, unit: i64, text: &str, route: &Route, obs: &Observed, argv: &[String]| {
        sink.id += 1;
        let id = sink.id;
        sink.tlc.line(&json!({"id": id, "kind": "verdict", "flag": if route.flag == "default" { "auto" } else { route.flag }, "src": route.src, "ext": route.ext,
            "class": "jdoc", "jdoc": doc, "scale": unit, "wscale": 1}));
        sink.full.line(&json!({"id": id, "kind": "verdict", "mode": "cjson", "game": game, "fault": what, "class": "jdoc", "argv": argv,
            "route": {"flag": route.flag, "src": route.src, "ext": route.ext, "to_file": route.to_file},
            "exit": obs.exit, "timed_out": obs.timed_out, "stderr_cat": obs.stderr_cat, "stderr": obs.stderr_head,
            "stdout_empty": obs.stdout_empty, "outfile": obs.outfile, "printed_is_object": obs.printed.is_object(),
            "text": if text.len() < 3000 { text.to_string() } else { String::new() }}));
    };
    for (gi, (name, t0)) in games.iter().enumerate() {
        for variant in 0..2usize {
            let mut t = t0.clone();
            if variant == 1 {
                dyadic_generic(&mut t, rng);
            }
            let unit = if variant == 0 { 1 } else { 1024 };
            let kinds: &[(&str, jdoc::Open)] = &[("grammar", jdoc::STRICT), ("open", jdoc::OPEN)];
            for (ki, (kind, open)) in kinds.iter().enumerate() {
                let Some((doc, t2)) = jdoc::to_jdoc(&t, open, rng) else { continue };
                if meaning {
                    let text = jdoc::text(&doc, rng);
                    let mut names = [BTreeMap::new(), BTreeMap::new()];
                    for pl in 0..2 {
                        let (mut m, mut s) = (BTreeMap::new(), BTreeMap::new());
                        t2.infos(pl as u8 + 1, &mut m);
                        t2.singles(pl as u8 + 1, &mut s);
                        for k in m.keys().chain(s.keys()) {
                            names[pl].insert(k.clone(), k.clone());
                        }
                    }
                    let r = Rendered { fmt: "jdoc", text: text.clone(), doc: None, names, sum: 0, scale: 1, jdoc: Some(doc.clone()), mult: 1.0 };
                    let budget = ["1", "2", "3"][(gi + ki + variant) % 3];
                    let d = DISCOUNTS[(gi + ki) % 5];
                    let mut opts: BTreeMap<&str, String> = BTreeMap::new();
                    opts.insert("m", "full".into());
                    opts.insert("d", d.to_string());
                    opts.insert("t", budget.to_string());
                    opts.insert("p", "1".into());
                    let refsol = reference(&t2, d, budget.parse().unwrap(), 0.0, 1, 0.0).ok();
                    let nroutes = if thorough { routes.len() } else { 3 };
                    for k in 0..nroutes {
                        let route = &routes[(k * 2 + gi + ki) % routes.len()];
                        let (obs, argv) = execute(exe, dir, sink.id + 1, &text, route, &opt_vec(&opts));
                        verdict(sink, name, kind, &doc, unit, &text, route, &obs, &argv);
                        if obs.printed.is_object() && obs.exit == Some(0) && route.flag != "gambit" {
                            emit_out(sink, "cjson", name, &t2, &r, route, &opts, &obs, &argv, None, refsol.clone());
                        }
                        *runs += 1;
                    }
                } else {
                    let opts: Vec<String> = vec!["-m".into(), "full".into(), "-t".into(), "2".into(), "-p".into(), "1".into()];
                    for (fi, f) in jdoc::FAULTS.iter().enumerate() {
                        // quick: every fault on every game, alternating between the document kinds
                        if !thorough && (fi + gi + variant) % 2 != ki {
                            continue;
                        }
                        let Some(bad) = jdoc::apply_fault(&doc, f, rng) else { continue };
                        let text = jdoc::text(&bad, rng);
                        let nroutes = if thorough { 3 } else { 1 };
                        for k in 0..nroutes {
                            let route = &routes[(k * 2 + gi + fi) % 5];
                            let (obs, argv) = execute(exe, dir, sink.id + 1, &text, route, &opts);
                            verdict(sink, name, f, &bad, unit, &text, route, &obs, &argv);
                            *runs += 1;
                        }
                    }
                }
            }
        }
    }
}

fn first_terminal_outcome(n: &DNode) -> i64 {
    match n {
        DNode::T { out, .. } => *out,
        DNode::C { kids, .. } | DNode::P { kids, .. } => first_terminal_outcome(&kids[0].t),
    }
}

/// the first decision node's field "infoset" is renamed
fn rename_first_infoset(v: &Value) -> Value {
    fn rec(v: &mut Value, done: &mut bool) {
        if *done {
            return;
        }
        if let Some(p) = v.get_mut("player") {
            if let Some(o) = p.as_object_mut() {
                if let Some(x) = o.remove("infoset") {
                    o.insert("info".to_string(), x);
                    *done = true;
                }
            }
            return;
        }
        if let Some(c) = v.get_mut("chance") {
            if let Some(o) = c["outcomes"].as_object_mut() {
                for (_, x) in o.iter_mut() {
                    rec(&mut x["state"], done);
                }
            }
        }
    }
    let mut v2 = v.clone();
    rec(&mut v2, &mut false);
    v2
}

/// replace the value of the first "prob" field
fn regex_first_prob(text: &str, with: &str) -> String {
    if let Some(at) = text.find("\"prob\":") {
        let start = at + 7;
        let end = text[start..].find(|c: char| c == ',' || c == '}').map_or(text.len(), |e| start + e);
        format!("{}{}{}", &text[..start], with, &text[end..])
    } else {
        text.to_string()
    }
}

/// the first decision node loses all its actions
fn empty_first_actions(v: &Value) -> Value {
    fn rec(v: &mut Value, done: &mut bool) {
        if *done {
            return;
        }
        if let Some(p) = v.get_mut("player") {
            p["actions"] = json!({});
            *done = true;
            return;
        }
        if let Some(c) = v.get_mut("chance") {
            if let Some(o) = c["outcomes"].as_object_mut() {
                for (_, x) in o.iter_mut() {
                    rec(&mut x["state"], done);
                }
            }
        }
    }
    let mut v2 = v.clone();
    rec(&mut v2, &mut false);
    v2
}

// ------------------------------------------------------------------------------------------ replay
fn printed_prob(printed: &Value, key: &str, info: &str, a: &str) -> f64 {
    printed[key][info][a].as_f64().unwrap_or(0.0)
}

/// library evaluation of the printed profile on the independently built game
fn lib_eval(t: &Tree, names: &Value, printed: &Value) -> Result<[f64; 4], String> {
    let t2 = t.clone();
    let names = names.clone();
    let printed = printed.clone();
    util::catch(move || {
        let game = tree::build(&t2).map_err(|e| format!("{e:?}"))?;
        let mut named: [Vec<(String, Vec<(String, f64)>)>; 2] = [Vec::new(), Vec::new()];
        for (pl, key) in ["player_one_strategy", "player_two_strategy"].iter().enumerate() {
            if let Some(m) = printed[*key].as_object() {
                for (shown, acts) in m.iter() {
                    let label = names[pl][shown].as_str().ok_or_else(|| format!("printed infoset {shown} is not an infoset of the game"))?;
                    named[pl].push((label.to_string(), acts.as_object().unwrap().iter().map(|(a, p)| (a.clone(), p.as_f64().unwrap_or(f64::NAN))).collect()));
                }
            }
        }
        let strat = game.from_named(named).map_err(|e| format!("printed strategies are not a profile of the game: {e:?}"))?;
        let info = strat.get_info();
        Ok([info.player_utility(PlayerNum::One), info.player_regret(PlayerNum::One), info.player_regret(PlayerNum::Two), info.regret()])
    })
    .and_then(|r| r)
}

pub fn replay(args: &Args) {
    let full = util::read_ndjson(args.get("full"));
    let exps = util::read_ndjson(args.get("exp"));
    let mut out = Out::create(args.get("out"));
    let by_id: std::collections::HashMap<i64, &Value> = exps.iter().map(|e| (e["id"].as_i64().unwrap(), &e["exp"])).collect();
    let mut group_first: std::collections::HashMap<u64, Value> = std::collections::HashMap::new();
    for c in full.iter() {
        let id = c["id"].as_i64().unwrap();
        let mut bad: Vec<Value> = Vec::new();
        let exp = by_id.get(&id);
        if c["kind"] == "verdict" {
            let Some(exp) = exp else {
                out.line(&json!({"id": id, "status": "noexp"}));
                continue;
            };
            let cats: Vec<&str> = exp["categories"].as_array().unwrap().iter().map(|x| x.as_str().unwrap()).collect();
            let exit = c["exit"].as_i64();
            if c["timed_out"].as_bool() == Some(true) {
                bad.push(json!({"class": "hang", "what": "the program did not terminate"}));
            } else if cats.is_empty() || (exp["solve_admissible"].as_bool() == Some(true) && exit == Some(0)) {
                if exit != Some(0) || c["printed_is_object"].as_bool() != Some(true) {
                    bad.push(json!({"class": "rejects-valid", "what": "a valid input was not solved", "exit": exit, "stderr": c["stderr"]}));
                }
            } else {
                if exit == Some(0) {
                    bad.push(json!({"class": format!("accepts:{}", cats.join("+")), "what": "an input that must be rejected was solved", "specified": cats}));
                } else {
                    let cat = c["stderr_cat"].as_str().unwrap_or("none");
                    if !cats.contains(&cat) {
                        bad.push(json!({"class": "category", "what": "the diagnostic does not name a documented category of the fault", "observed": cat, "specified": cats, "stderr": c["stderr"]}));
                    }
                    if c["stdout_empty"].as_bool() != Some(true) || c["outfile"].as_bool() == Some(true) {
                        bad.push(json!({"class": "output", "what": "a result was written although the input was rejected"}));
                    }
                }
            }
            if bad.is_empty() {
                out.line(&json!({"id": id, "status": "ok", "nontrivial": !cats.is_empty(), "fault": c["fault"], "parser": exp["parser"]}));
            } else {
                out.line(&json!({"id": id, "status": "violation", "mismatch": bad, "fault": c["fault"], "class": c["class"]}));
            }
            continue;
        }
        // ---- kind "out"
        let printed = &c["printed"];
        if c["timed_out"].as_bool() == Some(true) {
            bad.push(json!({"class": "hang", "what": "the program did not terminate"}));
        } else if c["exit"].as_i64() != Some(0) || !printed.is_object() {
            bad.push(json!({"class": "failed", "what": "a valid game file was not solved or the output is not one JSON object", "exit": c["exit"], "stderr": c["stderr"]}));
        }
        if !bad.is_empty() {
            out.line(&json!({"id": id, "status": "violation", "mismatch": bad}));
            continue;
        }
        // (a document whose payoff literals carry an exponent suffix prints its numbers in that unit)
        let mult = c["mult"].as_f64().unwrap_or(1.0);
        let num = |k: &str| printed[k].as_f64().unwrap_or(f64::NAN) / mult;
        let (u1, u2, r1, r2, rt) = (num("player_one_utility"), num("player_two_utility"), num("player_one_regret"), num("player_two_regret"), num("regret"));
        let half = c["sum"].as_i64().unwrap() as f64 / (2.0 * c["scale"].as_i64().unwrap() as f64);
        let tol = 1e-9;
        // structure of the strategies (floats): positive, sums to one
        for key in ["player_one_strategy", "player_two_strategy"] {
            match printed[key].as_object() {
                None => bad.push(json!({"class": "shape", "what": "a strategy is missing from the output", "key": key})),
                Some(m) => {
                    for (info, acts) in m.iter() {
                        let ps: Vec<f64> = acts.as_object().map_or(Vec::new(), |a| a.values().map(|p| p.as_f64().unwrap_or(f64::NAN)).collect());
                        if ps.iter().any(|p| !(*p > 0.0)) || (ps.iter().sum::<f64>() - 1.0).abs() > 1e-9 {
                            bad.push(json!({"class": "distribution", "what": "a printed infoset is not a distribution over positive probabilities", "infoset": info, "observed": acts}));
                        }
                    }
                }
            }
        }
        if rt != f64::max(r1, r2) {
            bad.push(json!({"class": "relation", "what": "total regret is not the larger player regret", "observed": [r1, r2, rt]}));
        }
        if !util::close(u1 + u2, 2.0 * half, tol) {
            bad.push(json!({"class": "relation", "what": "the two utilities do not add up to the constant sum of the file", "observed": [u1, u2], "sum": 2.0 * half}));
        }
        // the exact evaluation by the specification
        match exp {
            None => bad.push(json!({"class": "tool", "what": "no verdict from the specification"})),
            Some(exp) => {
                if exp["names_ok"].as_bool() != Some(true) {
                    bad.push(json!({"class": "names", "what": "the printed strategies are not over the input game's infosets and actions"}));
                } else {
                    if exp["dist_ok"].as_bool() != Some(true) {
                        bad.push(json!({"class": "distribution", "what": "a printed infoset does not sum to one exactly"}));
                    }
                    if exp["evaluated"].as_bool() == Some(true) {
                        for (k, got) in [("u1", u1), ("u2", u2), ("r1", r1), ("r2", r2), ("total", rt)] {
                            let want = util::rat(&exp[k]);
                            if !util::close(got, want, tol) {
                                bad.push(json!({"class": format!("numbers:{k}"), "what": "a printed number is not the value of the printed strategies on the game as written",
                                    "field": k, "observed": got, "specified": exp[k]}));
                            }
                        }
                    }
                    let e = &exp["expected"];
                    if e["status"].as_str() == Some("ok") {
                        // margin zero = the clip decision is a tie in exact arithmetic: not judged
                        let fragile = e["margin"][0].as_i64() == Some(0) && c["opts"]["c"].as_str().map_or(false, |s| s != "0");
                        if !fragile {
                            for (pl, key) in ["player_one_strategy", "player_two_strategy"].iter().enumerate() {
                                for row in e["printed"][pl].as_array().unwrap() {
                                    let info = row[0].as_str().unwrap();
                                    for ap in row[1].as_array().unwrap() {
                                        let a = ap[0].as_str().unwrap();
                                        let want = util::rat(&ap[1]);
                                        let got = printed_prob(printed, key, info, a);
                                        if !util::close(got, want, 1e-9) {
                                            bad.push(json!({"class": "solution", "what": "the printed strategies are not those of the documented algorithm with the selected options",
                                                "infoset": info, "action": a, "observed": got, "specified": ap[1], "clipped": e["clipped"]}));
                                        }
                                    }
                                    let n_printed = printed[key][info].as_object().map_or(0, |m| m.len());
                                    if n_printed != row[1].as_array().unwrap().len() {
                                        bad.push(json!({"class": "solution", "what": "the printed support differs from the documented algorithm's", "infoset": info,
                                            "observed": printed[key][info], "specified": row[1], "clipped": e["clipped"]}));
                                    }
                                }
                            }
                        }
                    }
                }
            }
        }
        // the library's evaluation of the printed profile on the independently built game
        let t: Tree = serde_json::from_value(c["tree"].clone()).unwrap();
        match lib_eval(&t, &c["names"], printed) {
            Err(msg) => bad.push(json!({"class": "profile", "what": "the printed strategies are not a valid profile of the input game", "observed": msg})),
            Ok([u, g1, g2, gt]) => {
                for (k, got, want) in [("u1", u1, u + half), ("u2", u2, -u + half), ("r1", r1, g1), ("r2", r2, g2), ("total", rt, gt)] {
                    if !util::close(got, want, tol) {
                        bad.push(json!({"class": format!("numbers:{k}"), "what": "a printed number differs from the library's evaluation of the printed strategies on the game as written",
                            "field": k, "observed": got, "library": want}));
                    }
                }
            }
        }
        // C16: the library's own answer for the same options, and the other routes of the group
        if let Some(r) = c.get("ref").filter(|r| r.is_object()) {
            let gtol = c["group_tol"].as_f64().unwrap_or(1e-9);
            let margin = (r["regret_before"].as_f64().unwrap() - r["regret_after"].as_f64().unwrap()).abs();
            // with one thread the tool and the reference perform the same operations, so even an exact tie of
            // the two regrets is decided identically; with several threads the summation order may flip it
            let fragile = margin < 1e-9 && c["opts"]["c"].as_str().map_or(false, |s| s != "0") && c["opts"]["p"].as_str() != Some("1");
            if !fragile {
                for (pl, (key, side)) in [("player_one_strategy", "one"), ("player_two_strategy", "two")].iter().enumerate() {
                    let shown_of: BTreeMap<String, String> = c["names"][pl].as_object().unwrap().iter().map(|(s, l)| (l.as_str().unwrap().to_string(), s.clone())).collect();
                    for (label, acts) in r[*side].as_object().unwrap() {
                        let Some(shown) = shown_of.get(label) else { continue };
                        for (a, p) in acts.as_object().unwrap() {
                            let want = p.as_f64().unwrap();
                            let got = printed_prob(printed, key, shown, a);
                            if !util::close(got, want, gtol.max(1e-12)) {
                                bad.push(json!({"class": "library", "what": "the printed strategies differ from the library's result for the same options",
                                    "infoset": shown, "action": a, "observed": got, "library": want, "opts": c["opts"]}));
                            }
                        }
                    }
                }
            }
            if let Some(g) = c["group"].as_u64() {
                let mine = json!([printed["player_one_strategy"], printed["player_two_strategy"]]);
                match group_first.get(&g) {
                    None => {
                        group_first.insert(g, json!({"strat": mine, "names": c["names"], "route": c["route"]}));
                    }
                    Some(first) => {
                        // compare through the labels of the raw tree (shown names may differ between encodings)
                        for pl in 0..2 {
                            let label_of_first: BTreeMap<String, String> = first["names"][pl].as_object().unwrap().iter().map(|(s, l)| (l.as_str().unwrap().to_string(), s.clone())).collect();
                            for (shown, label) in c["names"][pl].as_object().unwrap() {
                                let Some(fshown) = label_of_first.get(label.as_str().unwrap()) else { continue };
                                let a = mine[pl][shown].as_object();
                                let b = first["strat"][pl][fshown].as_object();
                                let same = match (a, b) {
                                    (Some(a), Some(b)) => a.len() == b.len() && a.iter().all(|(k, v)| b.get(k).map_or(false, |w| util::close(v.as_f64().unwrap(), w.as_f64().unwrap(), gtol.max(1e-12)))),
                                    (None, None) => true,
                                    _ => false,
                                };
                                if !same && !fragile {
                                    bad.push(json!({"class": "route", "what": "the same game and options give different solutions through different input routes / encodings / destinations",
                                        "infoset": shown, "this": mine[pl][shown], "first": first["strat"][pl][fshown], "this_route": c["route"], "first_route": first["route"]}));
                                }
                            }
                        }
                    }
                }
            }
        }
        if bad.is_empty() {
            out.line(&json!({"id": id, "status": "ok", "nontrivial": true,
                "exact": exp.map_or(false, |e| e["evaluated"].as_bool() == Some(true)),
                "solution_exact": exp.map_or(false, |e| e["expected"]["status"].as_str() == Some("ok")),
                "clipped": exp.map_or(Value::Null, |e| e["expected"]["clipped"].clone())}));
        } else {
            bad.truncate(6);
            out.line(&json!({"id": id, "status": "violation", "mismatch": bad, "game": c["game"], "argv": c["argv"]}));
        }
    }
}

#[allow(dead_code)]
fn unused(_: &DKid) {}
