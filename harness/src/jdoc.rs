//! JSON game descriptions AS WRITTEN (member order, repeated names, members outside the grammar, wrong types):
//! the value model of spec/JsonDsl.tla, its text, documents of raw trees and a catalogue of faults.
//! The harness never says what a document means or whether it is well-formed: TLC does (JsonDsl.tla).
use crate::rng::Rng;
use crate::tree::{CKid, Num, PKid, Tree};
use serde_json::{json, Value};
use std::collections::{BTreeMap, BTreeSet};

/// the names of JsonDsl.tla's `NameOrder`
pub const NAMES: [&str; 16] = ["", " x", "10", "9", "A", "B", "Z", "_", "a", "a0", "aa", "ab", "b", "o", "z", "~"];

pub fn num(n: i64, d: i64) -> Value {
    json!({"t": "num", "n": n, "d": d})
}
pub fn st(s: &str) -> Value {
    json!({"t": "str", "s": s})
}
pub fn boolean(b: bool) -> Value {
    json!({"t": "bool", "b": if b { 1 } else { 0 }})
}
pub fn null() -> Value {
    json!({"t": "null"})
}
pub fn arr(e: Vec<Value>) -> Value {
    json!({"t": "arr", "e": e})
}
pub fn obj(members: Vec<(String, Value)>) -> Value {
    json!({"t": "obj", "f": members.into_iter().map(|(k, v)| json!({"k": k, "v": v})).collect::<Vec<_>>()})
}
fn member(k: &str, v: Value) -> Value {
    json!({"k": k, "v": v})
}

/// the document text: members in the order of the model, repeated names kept
pub fn text(v: &Value, rng: &mut Rng) -> String {
    match v["t"].as_str().unwrap() {
        "num" => {
            let (n, d) = (v["n"].as_i64().unwrap(), v["d"].as_i64().unwrap());
            let x = n as f64 / d as f64;
            match rng.below(4) {
                0 if x.fract() == 0.0 => format!("{}", x as i64),
                1 if x.fract() == 0.0 => format!("{}.0", x as i64),
                2 => format!("{x:e}"),
                _ => {
                    let s = format!("{x}");
                    if s.contains('.') || s.contains('e') {
                        s
                    } else {
                        format!("{s}.0")
                    }
                }
            }
        }
        "str" => serde_json::to_string(v["s"].as_str().unwrap()).unwrap(),
        "bool" => if v["b"].as_i64() == Some(1) { "true".into() } else { "false".into() },
        "null" => "null".into(),
        "arr" => format!("[{}]", v["e"].as_array().unwrap().iter().map(|e| text(e, rng)).collect::<Vec<_>>().join(",")),
        _ => {
            let ws = *rng.pick(&["", " ", "\n  "]);
            let ms: Vec<String> = v["f"]
                .as_array()
                .unwrap()
                .iter()
                .map(|m| format!("{}:{ws}{}", serde_json::to_string(m["k"].as_str().unwrap()).unwrap(), text(&m["v"], rng)))
                .collect();
            format!("{{{ws}{}{ws}}}", ms.join(&format!(",{ws}")))
        }
    }
}

fn shuffle<T>(xs: &mut [T], rng: &mut Rng) {
    for i in (1..xs.len()).rev() {
        let j = rng.below(i as u64 + 1) as usize;
        xs.swap(i, j);
    }
}

fn pay_num(p: &Num) -> Option<Value> {
    match p {
        Num::I(i) => Some(num(*i, 1)),
        Num::F(f) => {
            let k = f * 1024.0;
            if k.fract() == 0.0 && k.abs() < 1e9 {
                Some(num(k as i64, 1024))
            } else {
                None
            }
        }
        Num::S(_) => None,
    }
}

/// the raw tree with its actions renamed through `map` and the outcomes of every chance node in the order written
fn renamed(t: &Tree, map: &BTreeMap<String, String>) -> Tree {
    match t {
        Tree::T { .. } => t.clone(),
        Tree::C { ci, kids } => Tree::C { ci: ci.clone(), kids: kids.iter().map(|k| CKid { w: k.w.clone(), t: renamed(&k.t, map) }).collect() },
        Tree::P { pl, info, kids } => Tree::P { pl: *pl, info: info.clone(), kids: kids.iter().map(|k| PKid { a: map[&k.a].clone(), t: renamed(&k.t, map) }).collect() },
    }
}

fn actions_of(t: &Tree, out: &mut BTreeSet<String>) {
    match t {
        Tree::T { .. } => {}
        Tree::C { kids, .. } => kids.iter().for_each(|k| actions_of(&k.t, out)),
        Tree::P { kids, .. } => kids.iter().for_each(|k| {
            out.insert(k.a.clone());
            actions_of(&k.t, out)
        }),
    }
}

/// what the documentation leaves open, switched on for "open" documents
#[derive(Clone, Copy)]
pub struct Open {
    pub extra: f64,
    pub null_infoset: f64,
    pub decoy: f64,
    /// serde's positional form of an inner object (JsonDsl `JPos`)
    pub positional: f64,
}

pub const STRICT: Open = Open { extra: 0.0, null_infoset: 0.0, decoy: 0.0, positional: 0.0 };
pub const OPEN: Open = Open { extra: 0.3, null_infoset: 0.6, decoy: 0.4, positional: 0.25 };

/// the members of `keys`, in this order, as an array; None when one is missing or given twice, or another is present
fn positional(ms: &[(String, Value)], keys: &[&str], absent: Option<(&str, Value)>) -> Option<Value> {
    if ms.iter().any(|(k, _)| !keys.contains(&k.as_str())) {
        return None;
    }
    let mut out = Vec::new();
    for key in keys {
        let found: Vec<&Value> = ms.iter().filter(|(k, _)| k == key).map(|(_, v)| v).collect();
        match (found.len(), &absent) {
            (1, _) => out.push(found[0].clone()),
            (0, Some((k, v))) if k == key => out.push(v.clone()),
            _ => return None,
        }
    }
    Some(arr(out))
}

fn members_of(inner: &Value) -> Option<Vec<(String, Value)>> {
    Some(inner["f"].as_array()?.iter().map(|m| (m["k"].as_str().unwrap_or("").to_string(), m["v"].clone())).collect())
}

fn doc_of(t: &Tree, open: &Open, rng: &mut Rng) -> Option<Value> {
    let extra = |ms: &mut Vec<(String, Value)>, rng: &mut Rng| {
        if rng.chance(open.extra) {
            let v = match rng.below(3) {
                0 => st("a remark"),
                1 => null(),
                _ => obj(vec![("terminal".into(), num(7, 1))]),
            };
            ms.push(((*rng.pick(&["comment", "note", "probability", "state2"])).to_string(), v));
        }
    };
    Some(match t {
        Tree::T { pay } => obj(vec![("terminal".into(), pay_num(pay)?)]),
        Tree::C { ci, kids } => {
            // outcome names: an increasing selection of the alphabet, so that the byte order of the names is the order
            // of the raw tree (chance infosets share their probability vector position by position)
            let mut ix: Vec<usize> = (0..NAMES.len()).collect();
            shuffle(&mut ix, rng);
            let mut chosen: Vec<usize> = ix.into_iter().take(kids.len()).collect();
            chosen.sort();
            if chosen.len() < kids.len() {
                return None;
            }
            let mut outs: Vec<(String, Value)> = Vec::new();
            for (k, c) in kids.iter().zip(chosen.iter()) {
                let w = match &k.w {
                    Num::I(i) => num(*i, 1),
                    _ => return None,
                };
                let mut ms = vec![("prob".to_string(), w), ("state".to_string(), doc_of(&k.t, open, rng)?)];
                if rng.chance(open.positional) {
                    outs.push((NAMES[*c].to_string(), positional(&ms, &["prob", "state"], None)?));
                    continue;
                }
                extra(&mut ms, rng);
                shuffle(&mut ms, rng);
                outs.push((NAMES[*c].to_string(), obj(ms)));
            }
            shuffle(&mut outs, rng);
            if rng.chance(open.decoy) && !outs.is_empty() {
                // an earlier, well-formed outcome of the same name: the last one counts
                let name = outs[rng.below(outs.len() as u64) as usize].0.clone();
                outs.insert(0, (name, obj(vec![("state".into(), obj(vec![("terminal".into(), num(99, 1))])), ("prob".into(), num(5, 1))])));
            }
            let mut ms = vec![("outcomes".to_string(), obj(outs))];
            if rng.chance(open.positional) {
                if ci != "none" {
                    ms.push(("infoset".into(), st(ci)));
                }
                return Some(obj(vec![("chance".into(), positional(&ms, &["infoset", "outcomes"], Some(("infoset", null())))?)]));
            }
            if ci != "none" {
                ms.push(("infoset".into(), st(ci)));
            } else if rng.chance(open.null_infoset) {
                ms.push(("infoset".into(), null()));
            }
            extra(&mut ms, rng);
            shuffle(&mut ms, rng);
            obj(vec![("chance".into(), obj(ms))])
        }
        Tree::P { pl, info, kids } => {
            let mut acts: Vec<(String, Value)> = Vec::new();
            for k in kids.iter() {
                acts.push((k.a.clone(), doc_of(&k.t, open, rng)?));
            }
            shuffle(&mut acts, rng);
            if rng.chance(open.decoy) && !acts.is_empty() {
                let name = acts[rng.below(acts.len() as u64) as usize].0.clone();
                acts.insert(0, (name, obj(vec![("terminal".into(), num(-99, 1))])));
            }
            let mut ms = vec![("player_one".to_string(), boolean(*pl == 1)), ("infoset".to_string(), st(info)), ("actions".to_string(), obj(acts))];
            if rng.chance(open.positional) {
                return Some(obj(vec![("player".into(), positional(&ms, &["player_one", "infoset", "actions"], None)?)]));
            }
            extra(&mut ms, rng);
            shuffle(&mut ms, rng);
            obj(vec![("player".into(), obj(ms))])
        }
    })
}

/// (document, the raw tree the harness had in mind: actions renamed into the alphabet) - None when the tree does
/// not fit the alphabet or carries numbers the model cannot hold
pub fn to_jdoc(t: &Tree, open: &Open, rng: &mut Rng) -> Option<(Value, Tree)> {
    let mut acts = BTreeSet::new();
    actions_of(t, &mut acts);
    if acts.len() > NAMES.len() {
        return None;
    }
    let mut ix: Vec<usize> = (0..NAMES.len()).collect();
    shuffle(&mut ix, rng);
    let map: BTreeMap<String, String> = acts.iter().zip(ix.iter()).map(|(a, i)| (a.clone(), NAMES[*i].to_string())).collect();
    let t2 = renamed(t, &map);
    let doc = doc_of(&t2, open, rng)?;
    Some((doc, t2))
}

// ------------------------------------------------------------------------------------------ faults
/// JSON pointers of the game nodes of a document with the name of their (first) member
fn nodes(v: &Value, ptr: String, out: &mut Vec<(String, String)>) {
    if v["t"] != "obj" {
        return;
    }
    let f = v["f"].as_array().unwrap();
    if f.is_empty() {
        return;
    }
    let key = f[0]["k"].as_str().unwrap().to_string();
    out.push((ptr.clone(), key.clone()));
    let inner = &f[0]["v"];
    if inner["t"] != "obj" {
        return;
    }
    for (i, m) in inner["f"].as_array().unwrap().iter().enumerate() {
        let k = m["k"].as_str().unwrap();
        if (key == "player" && k == "actions") || (key == "chance" && k == "outcomes") {
            if m["v"]["t"] != "obj" {
                continue;
            }
            for (j, e) in m["v"]["f"].as_array().unwrap().iter().enumerate() {
                let base = format!("{ptr}/f/0/v/f/{i}/v/f/{j}/v");
                if key == "player" {
                    nodes(&e["v"], base, out);
                } else if e["v"]["t"] == "obj" {
                    for (q, om) in e["v"]["f"].as_array().unwrap().iter().enumerate() {
                        if om["k"] == "state" {
                            nodes(&om["v"], format!("{base}/f/{q}/v"), out);
                        }
                    }
                }
            }
        }
    }
}

pub const FAULTS: [&str; 45] = [
    "two-variants", "no-variant", "unknown-variant", "node-string", "node-array", "node-null", "terminal-string", "terminal-null", "terminal-bool",
    "terminal-object", "missing-outcomes", "missing-actions", "missing-infoset", "missing-player-one", "missing-prob", "missing-state",
    "infoset-twice", "actions-twice", "outcomes-twice", "prob-twice", "player-one-number", "player-one-string", "infoset-number", "infoset-null",
    "chance-infoset-number", "actions-array", "outcomes-array", "prob-string", "prob-null", "malformed-decoy",
    // well-formed JSON-DSL, outside the library contract
    "prob-zero", "prob-negative", "no-actions", "no-outcomes",
    // one node of an infoset lists one action more / one action fewer than the others (a fault only when the infoset has
    // another node: the specification decides)
    "extra-action", "drop-last-action",
    // serde's positional form of an inner object with an element missing, one too many, or two exchanged; and the
    // positional form as it should be (open, not a fault: the specification decides)
    "positional", "positional-short", "positional-long", "positional-swapped", "outcome-positional-short", "outcome-positional-swapped",
    // every chance node labelled with the EMPTY string: one chance infoset (a fault when their distributions differ: the
    // specification decides)
    "chance-labels-empty",
    // two nodes each put below a new single-action decision node of ONE infoset of player one, the single action named alike
    // ("forced-twins": a valid game unless recall is broken) or differently ("forced-twins-mismatch": the actions of an
    // infoset differ) - the specification decides
    "forced-twins", "forced-twins-mismatch",
];

fn members_mut<'a>(doc: &'a mut Value, node: &str) -> Option<&'a mut Vec<Value>> {
    doc.pointer_mut(&format!("{node}/f/0/v/f")).and_then(|x| x.as_array_mut())
}

fn member_index(ms: &[Value], key: &str) -> Option<usize> {
    ms.iter().position(|m| m["k"] == key)
}

/// the document with one fault at a random applicable node; None when no node is applicable
pub fn apply_fault(doc: &Value, fault: &str, rng: &mut Rng) -> Option<Value> {
    let mut all = Vec::new();
    nodes(doc, String::new(), &mut all);
    let wants: &[&str] = match fault {
        "two-variants" | "no-variant" | "unknown-variant" | "node-string" | "node-array" | "node-null" => &["terminal", "chance", "player"],
        "terminal-string" | "terminal-null" | "terminal-bool" | "terminal-object" => &["terminal"],
        "missing-outcomes" | "outcomes-twice" | "chance-infoset-number" | "outcomes-array" | "missing-prob" | "missing-state" | "prob-twice"
        | "prob-string" | "prob-null" | "prob-zero" | "prob-negative" | "no-outcomes" | "outcome-positional-short" | "outcome-positional-swapped" => {
            &["chance"]
        }
        "positional" | "positional-short" | "positional-long" | "positional-swapped" => &["chance", "player"],
        _ => &["player"],
    };
    if fault == "forced-twins" || fault == "forced-twins-mismatch" {
        if all.len() < 3 {
            return None;
        }
        // two different nodes other than the root (deepest first, so that the pointer of the second stays valid)
        let mut picks: Vec<String> = Vec::new();
        for _ in 0..20 {
            let (ptr, _) = &all[1 + rng.below(all.len() as u64 - 1) as usize];
            if !picks.contains(ptr) && !picks.iter().any(|p| p.starts_with(ptr.as_str()) || ptr.starts_with(p.as_str())) {
                picks.push(ptr.clone());
            }
            if picks.len() == 2 {
                break;
            }
        }
        if picks.len() < 2 {
            return None;
        }
        let mut d = doc.clone();
        for (j, ptr) in picks.iter().enumerate() {
            let inner = d.pointer(ptr)?.clone();
            let label = if fault == "forced-twins" || j == 0 { "a" } else { "b" };
            let wrapped = obj(vec![("player".into(), obj(vec![("player_one".into(), boolean(true)), ("infoset".into(), st("~forced")),
                ("actions".into(), obj(vec![(label.into(), inner)]))]))]);
            *d.pointer_mut(ptr)? = wrapped;
        }
        return Some(d);
    }
    if fault == "chance-labels-empty" {
        // (only chance nodes with several outcomes: a ONE-outcome chance node sharing a label with a several-outcome node is
        // accepted by the library against its contract - the listed known finding R3s of C11, not to be re-reported here)
        let several = |ptr: &str| -> bool {
            doc.pointer(&format!("{ptr}/f/0/v/f")).and_then(|ms| ms.as_array()).map_or(false, |ms| {
                ms.iter().any(|m| {
                    m["k"] == "outcomes"
                        && m["v"]["f"].as_array().map_or(false, |o| o.iter().map(|e| e["k"].as_str().unwrap_or("")).collect::<BTreeSet<_>>().len() >= 2)
                })
            })
        };
        let chance: Vec<&(String, String)> = all.iter().filter(|(p, k)| k == "chance" && several(p)).collect();
        if chance.len() < 2 {
            return None;
        }
        let mut d = doc.clone();
        for (ptr, _) in chance {
            let ms = members_mut(&mut d, ptr)?;
            match member_index(ms, "infoset") {
                Some(i) => ms[i]["v"] = st(""),
                None => ms.push(member("infoset", st(""))),
            }
        }
        return Some(d);
    }
    let cands: Vec<&(String, String)> = all.iter().filter(|(_, k)| wants.contains(&k.as_str())).collect();
    if cands.is_empty() {
        return None;
    }
    let (ptr, kind) = cands[rng.below(cands.len() as u64) as usize].clone();
    let mut d = doc.clone();
    let set = |d: &mut Value, p: &str, v: Value| -> Option<()> {
        if p.is_empty() {
            *d = v;
        } else {
            *d.pointer_mut(p)? = v;
        }
        Some(())
    };
    match fault {
        "two-variants" => {
            let extra = if kind == "terminal" { member("chance", obj(vec![("outcomes".into(), obj(vec![]))])) } else { member("terminal", num(0, 1)) };
            let f = if ptr.is_empty() { d["f"].as_array_mut()? } else { d.pointer_mut(&format!("{ptr}/f"))?.as_array_mut()? };
            if rng.chance(0.5) {
                f.push(extra)
            } else {
                f.insert(0, extra)
            }
        }
        "no-variant" => set(&mut d, &ptr, obj(vec![]))?,
        "unknown-variant" => set(&mut d, &format!("{ptr}/f/0/k"), json!(*rng.pick(&["leaf", "Terminal", "nature", "player_one"])))?,
        "node-string" => set(&mut d, &ptr, st(&kind))?,
        "node-array" => set(&mut d, &ptr, arr(vec![]))?,
        "node-null" => set(&mut d, &ptr, null())?,
        "terminal-string" => set(&mut d, &format!("{ptr}/f/0/v"), st("1.5"))?,
        "terminal-null" => set(&mut d, &format!("{ptr}/f/0/v"), null())?,
        "terminal-bool" => set(&mut d, &format!("{ptr}/f/0/v"), boolean(true))?,
        "terminal-object" => set(&mut d, &format!("{ptr}/f/0/v"), obj(vec![("terminal".into(), num(1, 1))]))?,
        "missing-outcomes" | "missing-actions" | "missing-infoset" | "missing-player-one" => {
            let key = match fault {
                "missing-outcomes" => "outcomes",
                "missing-actions" => "actions",
                "missing-infoset" => "infoset",
                _ => "player_one",
            };
            let ms = members_mut(&mut d, &ptr)?;
            let before = ms.len();
            ms.retain(|m| m["k"] != key);
            if ms.len() == before {
                return None;
            }
        }
        "infoset-twice" | "actions-twice" | "outcomes-twice" => {
            let key = match fault {
                "infoset-twice" => "infoset",
                "actions-twice" => "actions",
                _ => "outcomes",
            };
            let ms = members_mut(&mut d, &ptr)?;
            let i = member_index(ms, key)?;
            let copy = ms[i].clone();
            ms.push(copy);
        }
        "player-one-number" | "player-one-string" | "infoset-number" | "infoset-null" | "chance-infoset-number" | "actions-array" | "outcomes-array"
        | "no-actions" | "no-outcomes" => {
            let (key, v) = match fault {
                "player-one-number" => ("player_one", num(1, 1)),
                "player-one-string" => ("player_one", st("true")),
                "infoset-number" | "chance-infoset-number" => ("infoset", num(3, 1)),
                "infoset-null" => ("infoset", null()),
                "actions-array" => ("actions", arr(vec![])),
                "outcomes-array" => ("outcomes", arr(vec![])),
                "no-actions" => ("actions", obj(vec![])),
                _ => ("outcomes", obj(vec![])),
            };
            let ms = members_mut(&mut d, &ptr)?;
            match member_index(ms, key) {
                Some(i) => ms[i]["v"] = v,
                None if fault == "chance-infoset-number" => ms.push(member("infoset", v)),
                None => return None,
            }
        }
        "missing-prob" | "missing-state" | "prob-twice" | "prob-string" | "prob-null" | "prob-zero" | "prob-negative" => {
            let ms = members_mut(&mut d, &ptr)?;
            let i = member_index(ms, "outcomes")?;
            let outs = ms[i]["v"]["f"].as_array_mut()?;
            if outs.is_empty() {
                return None;
            }
            // the LAST entry: it is never an overridden one
            let last = outs.len() - 1;
            let oms = outs[last]["v"]["f"].as_array_mut()?;
            match fault {
                "missing-prob" => oms.retain(|m| m["k"] != "prob"),
                "missing-state" => oms.retain(|m| m["k"] != "state"),
                "prob-twice" => {
                    let j = member_index(oms, "prob")?;
                    let c = oms[j].clone();
                    oms.push(c);
                }
                _ => {
                    let j = member_index(oms, "prob")?;
                    oms[j]["v"] = match fault {
                        "prob-string" => st("0.5"),
                        "prob-null" => null(),
                        "prob-zero" => num(0, 1),
                        _ => num(-1, 1),
                    };
                }
            }
        }
        "extra-action" | "drop-last-action" => {
            let ms = members_mut(&mut d, &ptr)?;
            let i = member_index(ms, "actions")?;
            let acts = ms[i]["v"]["f"].as_array_mut()?;
            if fault == "extra-action" {
                // "~" sorts after every other name of the alphabet: the longer list extends the shorter one
                if acts.iter().any(|m| m["k"] == "~") {
                    return None;
                }
                acts.push(member("~", obj(vec![("terminal".into(), num(0, 1))])));
            } else {
                if acts.len() < 3 {
                    return None;
                }
                // drop the action whose name sorts last
                let last = acts.iter().enumerate().max_by_key(|(_, m)| NAMES.iter().position(|n| Some(*n) == m["k"].as_str()).unwrap_or(0)).map(|(j, _)| j)?;
                acts.remove(last);
            }
        }
        "positional" | "positional-short" | "positional-long" | "positional-swapped" => {
            let inner = d.pointer(&format!("{ptr}/f/0/v"))?.clone();
            let ms = members_of(&inner)?;
            let a = if kind == "chance" {
                positional(&ms, &["infoset", "outcomes"], Some(("infoset", null())))?
            } else {
                positional(&ms, &["player_one", "infoset", "actions"], None)?
            };
            let mut e = a["e"].as_array()?.clone();
            match fault {
                "positional" => {}
                "positional-short" => {
                    let at = rng.below(e.len() as u64) as usize;
                    e.remove(at);
                }
                "positional-long" => e.push(if rng.chance(0.5) { null() } else { obj(vec![]) }),
                _ => {
                    let n = e.len();
                    e.swap(n - 2, n - 1);
                }
            }
            set(&mut d, &format!("{ptr}/f/0/v"), arr(e))?
        }
        "outcome-positional-short" | "outcome-positional-swapped" => {
            let ms = members_mut(&mut d, &ptr)?;
            let i = member_index(ms, "outcomes")?;
            let outs = ms[i]["v"]["f"].as_array_mut()?;
            if outs.is_empty() {
                return None;
            }
            let last = outs.len() - 1;
            let oms = members_of(&outs[last]["v"])?;
            let a = positional(&oms, &["prob", "state"], None)?;
            let mut e = a["e"].as_array()?.clone();
            if fault == "outcome-positional-short" {
                e.pop();
            } else {
                e.swap(0, 1);
            }
            outs[last]["v"] = arr(e);
        }
        "malformed-decoy" => {
            // an earlier occurrence of an action name whose value is not a node: every occurrence is read
            let ms = members_mut(&mut d, &ptr)?;
            let i = member_index(ms, "actions")?;
            let acts = ms[i]["v"]["f"].as_array_mut()?;
            if acts.is_empty() {
                return None;
            }
            let name = acts[rng.below(acts.len() as u64) as usize]["k"].clone();
            acts.insert(0, json!({"k": name, "v": obj(vec![])}));
        }
        _ => return None,
    }
    Some(d)
}
