//! C01: evaluation (utility and regret of a profile) against the declarative oracle of Game.tla
use crate::rng::Rng;
use crate::tree::{self, GenCfg, Profile, Tree};
use crate::util::{self, Args, Out};
use cfr::PlayerNum;
use serde_json::{json, Value};

pub fn gen(args: &Args) {
    let seed = args.num("seed", 1);
    let n = args.num("n", 100);
    let mut out = Out::create(args.get("out"));
    let mut rng = Rng::new(seed);
    for id in 1..=n {
        let mut r = rng.fork();
        let cfg = GenCfg {
            dyadic: id % 2 == 0,
            max_depth: 3 + (id % 3) as usize,
            ..GenCfg::default()
        };
        let mut t = tree::gen_tree(&mut r, &cfg);
        tree::shorten(&mut t);
        let prof = tree::gen_profile(&mut r, &t, id % 3, cfg.dyadic);
        out.line(&json!({"id": id, "tree": t, "prof": prof}));
    }
}

pub fn evaluate(t: &Tree, prof: &Profile) -> Result<[f64; 6], String> {
    let t2 = t.clone();
    let prof2 = prof.clone();
    util::catch(move || {
        let game = tree::build(&t2).map_err(|e| format!("from_root: {e:?}"))?;
        let strat = game
            .from_named(tree::named(&t2, &prof2))
            .map_err(|e| format!("from_named: {e:?}"))?;
        let info = strat.get_info();
        Ok([
            info.player_utility(PlayerNum::One),
            info.player_utility(PlayerNum::Two),
            info.player_regret(PlayerNum::One),
            info.player_regret(PlayerNum::Two),
            info.regret(),
            0.0,
        ])
    })
    .and_then(|r| r)
}

/// compare get_info() of the real code with the exact values computed by TLC
pub fn replay(args: &Args) {
    let cases = util::read_ndjson(args.get("cases"));
    let exps = util::read_ndjson(args.get("exp"));
    let mut out = Out::create(args.get("out"));
    let tol = 1e-11;
    let by_id: std::collections::HashMap<i64, &Value> =
        exps.iter().map(|e| (e["id"].as_i64().unwrap(), e)).collect();
    for case in cases.iter() {
        let id = case["id"].as_i64().unwrap();
        let Some(exp) = by_id.get(&id) else {
            out.line(&json!({"id": id, "status": "noexp"}));
            continue;
        };
        let exp = &exp["exp"];
        if exp["poisoned"].as_bool() == Some(true) {
            out.line(&json!({"id": id, "status": "poisoned"}));
            continue;
        }
        let t: Tree = serde_json::from_value(case["tree"].clone()).unwrap();
        let prof: Profile = serde_json::from_value(case["prof"].clone()).unwrap();
        let (u, r1, r2, tot) = (
            util::rat(&exp["util"]),
            util::rat(&exp["r1"]),
            util::rat(&exp["r2"]),
            util::rat(&exp["total"]),
        );
        match evaluate(&t, &prof) {
            Err(msg) => out.line(&json!({"id": id, "status": "violation",
                "what": "evaluation failed on a valid game and profile", "observed": msg})),
            Ok([u1, u2, g1, g2, gt, _]) => {
                let mut bad = Vec::new();
                if !util::close(u1, u, tol) {
                    bad.push(json!({"field": "player_one_utility", "observed": u1, "specified": exp["util"]}));
                }
                if u2 != -u1 {
                    bad.push(json!({"field": "player_two_utility", "observed": u2, "specified": "-player_one_utility"}));
                }
                if !util::close(g1, r1, tol) {
                    bad.push(json!({"field": "player_one_regret", "observed": g1, "specified": exp["r1"]}));
                }
                if !util::close(g2, r2, tol) {
                    bad.push(json!({"field": "player_two_regret", "observed": g2, "specified": exp["r2"]}));
                }
                if !util::close(gt, tot, tol) || gt != f64::max(g1, g2) {
                    bad.push(json!({"field": "regret", "observed": gt, "specified": exp["total"]}));
                }
                let nontrivial = t.stats().1 >= 1;
                if bad.is_empty() {
                    out.line(&json!({"id": id, "status": "ok", "nontrivial": nontrivial}));
                } else {
                    out.line(&json!({"id": id, "status": "violation", "what": "get_info differs from the exact oracle",
                        "mismatch": bad, "tree": case["tree"], "prof": case["prof"]}));
                }
            }
        }
    }
}
