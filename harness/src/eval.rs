//! C01: evaluation (utility and regret of a profile) against the declarative oracle of Game.tla
use crate::rng::Rng;
use crate::tree::{self, GenCfg, Profile, Tree};
use crate::util::{self, Args, Out};
use cfr::PlayerNum;
use serde_json::{json, Value};

pub fn gen(args: &Args) {
    let seed = args.num("seed", 1);
    let n = args.num("n", 100);
    let mut out = Out::create(args.get("out"));
    let mut rng = Rng::new(seed);
    for id in 1..=n {
        let mut r = rng.fork();
        let cfg = GenCfg {
            dyadic: id % 2 == 0,
            max_depth: 3 + (id % 3) as usize,
            max_nodes: 30 + 10 * (id % 4) as usize,
            max_infos: 6,
            chance_repeat: id % 5 == 0,
            ..GenCfg::default()
        };
        let mut t = tree::gen_tree(&mut r, &cfg);
        tree::shorten(&mut t);
        let mut prof = tree::gen_profile(&mut r, &t, id % 3, cfg.dyadic);
        // every fourth case whose root is a decision with several actions: the root mixes its first and last action
        // evenly (the replay derives the EXTREME variant of such a case from it, see `extreme_variant`)
        if id % 4 == 2 {
            if let Tree::P { pl, info, kids } = &t {
                if kids.len() >= 2 {
                    let mut w = vec![0i64; kids.len()];
                    w[0] = 1;
                    w[kids.len() - 1] = 1;
                    prof[*pl as usize - 1].insert(info.clone(), w);
                }
            }
        }
        out.line(&json!({"id": id, "tree": t, "prof": prof}));
    }
}

pub fn evaluate(t: &Tree, prof: &Profile) -> Result<[f64; 6], String> {
    evaluate_as(t, prof, false)
}

/// `split`: every several-action infoset of the profile is passed in two separate items
pub fn evaluate_as(t: &Tree, prof: &Profile, split: bool) -> Result<[f64; 6], String> {
    let t2 = t.clone();
    let prof2 = prof.clone();
    util::catch(move || {
        let game = tree::build(&t2).map_err(|e| format!("from_root: {e:?}"))?;
        let strat = game
            .from_named(if split { tree::named_split(&t2, &prof2) } else { tree::named(&t2, &prof2) })
            .map_err(|e| format!("from_named: {e:?}"))?;
        let info = strat.get_info();
        Ok([
            info.player_utility(PlayerNum::One),
            info.player_utility(PlayerNum::Two),
            info.player_regret(PlayerNum::One),
            info.player_regret(PlayerNum::Two),
            info.regret(),
            0.0,
        ])
    })
    .and_then(|r| r)
}

/// EXTREME ratio and magnitude together, derived from an ordinary case whose root decision mixes its first and last
/// action evenly: the root plays the first action with weight 2^60 and the last with weight 1 (probabilities exactly 1.0
/// and 2^-60 in floating point), and every payoff below the last action is multiplied by 2^60 (exact).  Utility is linear
/// in the root's distribution and the OTHER player's best response maximises the same linear form, so utility and the
/// other player's regret are those of the ordinary case times 2 W / (W + 1) = 2 (1 - 2^-60): the exact values TLC
/// computed for the ordinary case decide the extreme one.  (The root player's own regret is not related: not judged.)
fn extreme_variant(t: &Tree, prof: &Profile) -> Option<(Tree, Profile, u8)> {
    let Tree::P { pl, info, kids } = t else { return None };
    let n = kids.len();
    let w = prof[*pl as usize - 1].get(info)?;
    if n < 2 || w.len() != n || w[0] != 1 || w[n - 1] != 1 || w[1..n - 1].iter().any(|x| *x != 0) {
        return None;
    }
    let big = 2f64.powi(60);
    let mut kids2 = kids.clone();
    kids2[n - 1].t.map_pay(&mut |p| tree::Num::F(p.f() * big));
    let mut prof2 = prof.clone();
    let mut w2 = vec![0i64; n];
    w2[0] = 1i64 << 60;
    w2[n - 1] = 1;
    prof2[*pl as usize - 1].insert(info.clone(), w2);
    Some((Tree::P { pl: *pl, info: info.clone(), kids: kids2 }, prof2, *pl))
}

/// compare get_info() of the real code with the exact values computed by TLC
pub fn replay(args: &Args) {
    let exps = util::read_ndjson(args.get("exp"));
    let mut out = Out::create(args.get("out"));
    let tol = 1e-11;
    // either a separate case file (oracle pipeline) or cases embedded in the TLC output
    let cases: Vec<Value> = match args.opt.get("cases") {
        Some(path) => {
            let by_id: std::collections::HashMap<i64, Value> =
                exps.iter().map(|e| (e["id"].as_i64().unwrap(), e["exp"].clone())).collect();
            util::read_ndjson(path)
                .into_iter()
                .map(|c| {
                    let id = c["id"].as_i64().unwrap();
                    json!({"id": id, "tree": c["tree"], "prof": c["prof"], "exp": by_id.get(&id).cloned().unwrap_or(Value::Null)})
                })
                .collect()
        }
        None => exps
            .iter()
            .map(|e| json!({"id": e["id"], "tree": e["exp"]["tree"], "prof": e["exp"]["prof"], "exp": e["exp"]["exp"]}))
            .collect(),
    };
    for case in cases.iter() {
        let id = case["id"].as_i64().unwrap();
        let exp = &case["exp"];
        if exp.is_null() {
            out.line(&json!({"id": id, "status": "noexp"}));
            continue;
        }
        if exp["poisoned"].as_bool() == Some(true) {
            out.line(&json!({"id": id, "status": "poisoned"}));
            continue;
        }
        let t: Tree = serde_json::from_value(case["tree"].clone()).unwrap();
        // TLC prints a function with an empty domain as []
        let mut pj = case["prof"].clone();
        for side in pj.as_array_mut().unwrap().iter_mut() {
            if side.as_array().map_or(false, |a| a.is_empty()) {
                *side = json!({});
            }
        }
        let prof: Profile = serde_json::from_value(pj).unwrap();
        let (u, r1, r2, tot) = (
            util::rat(&exp["util"]),
            util::rat(&exp["r1"]),
            util::rat(&exp["r2"]),
            util::rat(&exp["total"]),
        );
        // some cases with every chance weight scaled by 2^-1040 (subnormal weights) or 2^1000: the same probabilities
        let t = match id % 7 {
            3 => t.scale_weights(-1040),
            5 => t.scale_weights(1000),
            _ => t,
        };
        match evaluate_as(&t, &prof, id % 2 == 1) {
            Err(msg) => out.line(&json!({"id": id, "status": "violation",
                "mismatch": [{"class": "failed", "what": "evaluation failed on a valid game and profile", "observed": msg}]})),
            Ok([u1, u2, g1, g2, gt, _]) => {
                let mut bad = Vec::new();
                if !util::close(u1, u, tol) {
                    bad.push(json!({"class": "utility", "what": "player one utility differs", "observed": u1, "specified": exp["util"]}));
                }
                if u2 != -u1 {
                    bad.push(json!({"class": "utility", "what": "player two utility is not the negation", "observed": u2}));
                }
                if !util::close(g1, r1, tol) {
                    bad.push(json!({"class": "regret", "what": "player one regret differs", "observed": g1, "specified": exp["r1"]}));
                }
                if !util::close(g2, r2, tol) {
                    bad.push(json!({"class": "regret", "what": "player two regret differs", "observed": g2, "specified": exp["r2"]}));
                }
                if !util::close(gt, tot, tol) || gt != f64::max(g1, g2) {
                    bad.push(json!({"class": "total", "what": "total regret is not the larger player regret", "observed": gt, "specified": exp["total"]}));
                }
                if let Some((tx, px, root_pl)) = extreme_variant(&t, &prof) {
                    match evaluate_as(&tx, &px, false) {
                        Err(msg) => bad.push(json!({"class": "extreme:failed", "what": "evaluation failed on the extreme variant (root weights 2^60 : 1, payoffs x 2^60 below the rare action)", "observed": msg})),
                        Ok([x1, _, h1, h2, _, _]) => {
                            if !util::close(x1, 2.0 * u, tol) {
                                bad.push(json!({"class": "extreme:utility", "what": "utility of the extreme variant is not twice the utility of the even mixture",
                                    "observed": x1, "specified_even_mixture": exp["util"]}));
                            }
                            let (got, want, which) = if root_pl == 1 { (h2, 2.0 * r2, "two") } else { (h1, 2.0 * r1, "one") };
                            if !util::close(got, want, tol) {
                                bad.push(json!({"class": "extreme:regret", "what": "regret of the player who does not move at the root is not twice that of the even mixture (extreme variant)",
                                    "player": which, "observed": got, "specified_even_mixture": if root_pl == 1 { exp["r2"].clone() } else { exp["r1"].clone() }}));
                            }
                        }
                    }
                }
                let nontrivial = t.stats().1 >= 1;
                if bad.is_empty() {
                    out.line(&json!({"id": id, "status": "ok", "nontrivial": nontrivial}));
                } else {
                    out.line(&json!({"id": id, "status": "violation", "mismatch": bad}));
                }
            }
        }
    }
}

/// C01, impl -> spec: evaluate seeded (game, profile) pairs with the event hook on and log, per
/// deviator, the order in which the real code resolved infosets, the value of each and the result
pub fn record(args: &Args) {
    use crate::cfr::verif;
    use cfr::verif::Event;
    let cases = util::read_ndjson(args.get("cases"));
    let mut out = Out::create(args.get("out"));
    let mut failed = Vec::new();
    let mut events = 0usize;
    let mut pops_total = 0usize;
    let rat = |x: f64| match util::reconstruct(x, 30000) {
        Some((n, d)) => json!([n, d]),
        None => json!([0, 0]),
    };
    for case in cases.iter() {
        let t: Tree = serde_json::from_value(case["tree"].clone()).unwrap();
        let mut pj = case["prof"].clone();
        for side in pj.as_array_mut().unwrap().iter_mut() {
            if side.as_array().map_or(false, |a| a.is_empty()) {
                *side = json!({});
            }
        }
        let prof: Profile = serde_json::from_value(pj.clone()).unwrap();
        let (t2, prof2) = (t.clone(), prof.clone());
        let res = util::catch(move || {
            let game = tree::build(&t2).map_err(|e| format!("from_root: {e:?}"))?;
            let strat = game.from_named(tree::named(&t2, &prof2)).map_err(|e| format!("from_named: {e:?}"))?;
            verif::reset();
            verif::set_record(true, false);
            let _ = strat.get_info();
            let log = verif::take_log();
            verif::reset();
            Ok::<_, String>(log)
        })
        .and_then(|r| r);
        match res {
            Err(msg) => failed.push(json!({"id": case["id"], "error": msg})),
            Ok(log) => {
                let mut sides = [Vec::new(), Vec::new()];
                let mut results = [json!([0, 0]), json!([0, 0])];
                for ev in log.iter() {
                    match ev {
                        Event::EvalPop(pl, info, value) => sides[*pl].push(json!({"info": info + 1, "value": rat(*value)})),
                        Event::EvalEnd(vals) => results = [rat(vals[0]), rat(vals[1])],
                        _ => {}
                    }
                }
                pops_total += sides[0].len() + sides[1].len();
                events += 1;
                out.line(&json!({"e": "eval", "id": case["id"], "tree": t, "prof": pj,
                    "one": {"pops": sides[0], "result": results[0]}, "two": {"pops": sides[1], "result": results[1]}}));
            }
        }
    }
    println!("{}", json!({"events": events, "pops": pops_total, "failed": failed}));
}

/// MC_History: step ONE real strategy object through a behaviour of the specification (evaluate,
/// truncate in place, clone, re-import) and compare every observation with the exact one
pub fn replay_history(args: &Args) {
    let cases = util::read_ndjson(args.get("cases"));
    let exps = util::read_ndjson(args.get("exp"));
    let mut out = Out::create(args.get("out"));
    let by_id: std::collections::HashMap<i64, &Value> = cases.iter().map(|c| (c["id"].as_i64().unwrap(), c)).collect();
    let thresholds = [0.25, 0.5, 0.6];
    for (n, row) in exps.iter().enumerate() {
        let b = &row["exp"];
        let Some(case) = by_id.get(&b["id"].as_i64().unwrap()) else { continue };
        let t: Tree = serde_json::from_value(case["tree"].clone()).unwrap();
        let mut pj = case["prof"].clone();
        for side in pj.as_array_mut().unwrap().iter_mut() {
            if side.as_array().map_or(false, |a| a.is_empty()) {
                *side = json!({});
            }
        }
        let prof: Profile = serde_json::from_value(pj).unwrap();
        let hist = b["hist"].as_array().unwrap().clone();
        let (t2, hist2) = (t.clone(), hist.clone());
        let res = util::catch(move || {
            let game = tree::build(&t2).map_err(|e| format!("from_root: {e:?}"))?;
            let mut strat = game.from_named(tree::named(&t2, &prof)).map_err(|e| format!("from_named: {e:?}"))?;
            let mut seen: Vec<Option<[f64; 4]>> = Vec::new();
            // the second object of the "pair" histories: initially a clone of the first
            let mut snap = strat.clone();
            for step in hist2.iter() {
                match step["op"].as_str().unwrap() {
                    "snap" => {
                        snap = strat.clone();
                        seen.push(None);
                    }
                    "swap" => {
                        std::mem::swap(&mut strat, &mut snap);
                        seen.push(None);
                    }
                    "dist" => {
                        let d = strat.distance(&snap, 1.0);
                        let e = snap.distance(&strat, 1.0);
                        seen.push(Some([d[0], d[1], e[0], e[1]]));
                    }
                    "eval" => {
                        let i = strat.get_info();
                        seen.push(Some([i.player_utility(PlayerNum::One), i.player_regret(PlayerNum::One), i.player_regret(PlayerNum::Two), i.regret()]));
                    }
                    "t1" => {
                        strat.truncate(thresholds[0]);
                        seen.push(None);
                    }
                    "t2" => {
                        strat.truncate(thresholds[1]);
                        seen.push(None);
                    }
                    "t3" => {
                        strat.truncate(thresholds[2]);
                        seen.push(None);
                    }
                    "clone" => {
                        strat = strat.clone();
                        seen.push(None);
                    }
                    _ => {
                        let [one, two] = strat.as_named();
                        let conv = |it: &mut dyn Iterator<Item = (String, Vec<(String, f64)>)>| -> Vec<(String, Vec<(String, f64)>)> { it.collect() };
                        let a = conv(&mut one.map(|(i, acts)| (i.clone(), acts.map(|(x, p)| (x.clone(), p)).collect())));
                        let b = conv(&mut two.map(|(i, acts)| (i.clone(), acts.map(|(x, p)| (x.clone(), p)).collect())));
                        strat = game.from_named([a, b]).map_err(|e| format!("re-import: {e:?}"))?;
                        seen.push(None);
                    }
                }
            }
            Ok::<_, String>(seen)
        })
        .and_then(|r| r);
        let ops: Vec<&str> = hist.iter().map(|s| s["op"].as_str().unwrap()).collect();
        match res {
            Err(msg) => out.line(&json!({"id": n, "status": "violation", "mismatch": [{"class": "failed", "what": "an operation of the history failed", "ops": ops, "observed": msg}]})),
            Ok(seen) => {
                let mut bad = Vec::new();
                let mut judged = 0;
                for (k, (step, got)) in hist.iter().zip(seen.iter()).enumerate() {
                    let (Some(got), obs) = (got, &step["obs"]) else { continue };
                    if obs["poisoned"].as_bool() != Some(false) {
                        continue;
                    }
                    judged += 1;
                    if step["op"] == "dist" {
                        let want = [util::rat(&obs["d1"]), util::rat(&obs["d2"]), util::rat(&obs["d1"]), util::rat(&obs["d2"])];
                        if got.iter().zip(want.iter()).any(|(a, b)| !util::close(*a, *b, 1e-12)) {
                            bad.push(json!({"class": "history-distance", "what": "the distance of two objects does not describe their current states", "step": k + 1, "ops": ops,
                                "observed": got.to_vec(), "specified": want.to_vec()}));
                        }
                        continue;
                    }
                    let want = [util::rat(&obs["util"]), util::rat(&obs["r1"]), util::rat(&obs["r2"]), util::rat(&obs["total"])];
                    if got.iter().zip(want.iter()).any(|(a, b)| !util::close(*a, *b, 1e-11)) {
                        bad.push(json!({"class": "history", "what": "an evaluation does not describe the current state of the object", "step": k + 1, "ops": ops,
                            "observed": got.to_vec(), "specified": want.to_vec()}));
                    }
                }
                if bad.is_empty() {
                    out.line(&json!({"id": n, "status": "ok", "nontrivial": judged >= 1}));
                } else {
                    out.line(&json!({"id": n, "status": "violation", "mismatch": bad}));
                }
            }
        }
    }
}
