//! C12: alternative presentations of one game.  `gen xform` writes (game, profile, transformation)
//! cases; spec/MC_Transform.tla builds the alternative presentation, checks the theorems on the exact
//! model and prints it; `replay xform` feeds both presentations to the real code and checks that
//! evaluation and the deterministic solver are related as Transform.tla states.
use crate::cfr::{self, verif, PlayerNum, PRESETS};
use crate::eval;
use crate::rng::Rng;
use crate::tree::{self, GenCfg, Num, Profile, Tree};
use crate::util::{self, Args, Out};
use serde_json::{json, Value};
use std::collections::BTreeMap;

pub const KINDS: [&str; 8] = ["rescale", "wrapc", "wrapp", "strip", "rename", "scale", "shift", "swap"];

/// preorder indices (1-based) of all nodes / of the several-outcome chance nodes
fn indices(t: &Tree, at: &mut usize, all: &mut Vec<usize>, chance: &mut Vec<usize>) {
    *at += 1;
    all.push(*at);
    match t {
        Tree::T { .. } => {}
        Tree::C { kids, .. } => {
            chance.push(*at);
            kids.iter().for_each(|k| indices(&k.t, at, all, chance));
        }
        Tree::P { kids, .. } => kids.iter().for_each(|k| indices(&k.t, at, all, chance)),
    }
}

/// make two several-outcome chance nodes of equal arity one labelled chance infoset (same weights); returns their
/// preorder indices.  Rescaling ONE of them then gives a shared infoset whose nodes carry proportional, not identical,
/// weights - a presentation of the same game
fn share_two_chance_nodes(t: &mut Tree, r: &mut Rng) -> Option<(usize, usize)> {
    fn collect(t: &Tree, at: &mut usize, out: &mut Vec<(usize, usize)>) {
        *at += 1;
        match t {
            Tree::T { .. } => {}
            Tree::C { kids, .. } => {
                if kids.len() >= 2 {
                    out.push((*at, kids.len()));
                }
                kids.iter().for_each(|k| collect(&k.t, at, out));
            }
            Tree::P { kids, .. } => kids.iter().for_each(|k| collect(&k.t, at, out)),
        }
    }
    fn node_at<'a>(t: &'a mut Tree, at: &mut usize, want: usize) -> Option<&'a mut Tree> {
        *at += 1;
        if *at == want {
            return Some(t);
        }
        match t {
            Tree::T { .. } => None,
            Tree::C { kids, .. } => {
                for k in kids.iter_mut() {
                    if let Some(n) = node_at(&mut k.t, at, want) {
                        return Some(n);
                    }
                }
                None
            }
            Tree::P { kids, .. } => {
                for k in kids.iter_mut() {
                    if let Some(n) = node_at(&mut k.t, at, want) {
                        return Some(n);
                    }
                }
                None
            }
        }
    }
    let mut cs = Vec::new();
    collect(t, &mut 0, &mut cs);
    let pairs: Vec<(usize, usize)> = cs.iter().flat_map(|a| cs.iter().filter(move |b| b.0 > a.0 && b.1 == a.1).map(move |b| (a.0, b.0))).collect();
    if pairs.is_empty() {
        return None;
    }
    let (a, b) = *r.pick(&pairs);
    let ws: Vec<crate::tree::Num> = match node_at(t, &mut 0, a)? {
        Tree::C { ci, kids } => {
            *ci = "shared".to_string();
            kids.iter().map(|k| k.w.clone()).collect()
        }
        _ => return None,
    };
    match node_at(t, &mut 0, b)? {
        Tree::C { ci, kids } => {
            *ci = "shared".to_string();
            for (k, w) in kids.iter_mut().zip(ws.iter()) {
                k.w = w.clone();
            }
        }
        _ => return None,
    }
    Some((a, b))
}

/// set the weights of the two chance nodes (preorder indices) to 1, 2, 4, ... (both the same)
fn powers_of_two_weights(t: &mut Tree, a: usize, b: usize) -> bool {
    fn rec(t: &mut Tree, at: &mut usize, a: usize, b: usize, done: &mut usize) {
        *at += 1;
        match t {
            Tree::T { .. } => {}
            Tree::C { kids, .. } => {
                if *at == a || *at == b {
                    for (j, k) in kids.iter_mut().enumerate() {
                        k.w = crate::tree::Num::I(1 << (j % 4));
                    }
                    *done += 1;
                }
                kids.iter_mut().for_each(|k| rec(&mut k.t, at, a, b, done));
            }
            Tree::P { kids, .. } => kids.iter_mut().for_each(|k| rec(&mut k.t, at, a, b, done)),
        }
    }
    let mut done = 0;
    rec(t, &mut 0, a, b, &mut done);
    done == 2
}

/// divide the weights of the chance nodes at the preorder indices by `div` in floating point (a presentation of the
/// same game whenever the quotients stay exactly proportional)
fn divide_weights(t: &mut Tree, nodes: &[usize], div: f64) {
    fn rec(t: &mut Tree, at: &mut usize, nodes: &[usize], div: f64) {
        *at += 1;
        match t {
            Tree::T { .. } => {}
            Tree::C { kids, .. } => {
                if nodes.contains(at) {
                    for k in kids.iter_mut() {
                        k.w = crate::tree::Num::F(k.w.f() / div);
                    }
                }
                kids.iter_mut().for_each(|k| rec(&mut k.t, at, nodes, div));
            }
            Tree::P { kids, .. } => kids.iter_mut().for_each(|k| rec(&mut k.t, at, nodes, div)),
        }
    }
    rec(t, &mut 0, nodes, div);
}

fn has_multi(t: &Tree, pl: u8) -> bool {
    match t {
        Tree::T { .. } => false,
        Tree::C { kids, .. } => kids.iter().any(|k| has_multi(&k.t, pl)),
        Tree::P { pl: p, kids, .. } => (*p == pl && kids.len() >= 2) || kids.iter().any(|k| has_multi(&k.t, pl)),
    }
}

/// (preorder index, player): nodes below a multi-action decision of the player whose subtree
/// contains another multi-action decision of the same player
fn between(t: &Tree, at: &mut usize, above: [bool; 2], out: &mut Vec<(usize, u8)>) {
    *at += 1;
    for pl in 1..=2u8 {
        if above[pl as usize - 1] && has_multi(t, pl) {
            out.push((*at, pl));
        }
    }
    match t {
        Tree::T { .. } => {}
        Tree::C { kids, .. } => kids.iter().for_each(|k| between(&k.t, at, above, out)),
        Tree::P { pl, kids, .. } => {
            let mut ab = above;
            if kids.len() >= 2 {
                ab[*pl as usize - 1] = true;
            }
            kids.iter().for_each(|k| between(&k.t, at, ab, out));
        }
    }
}

pub fn gen(args: &Args) {
    let seed = args.num("seed", 1);
    let n = args.num("n", 100);
    let mut out = Out::create(args.get("out"));
    let mut rng = Rng::new(seed ^ 0xc12);
    let mut id = 0;
    let mut tries = 0;
    while id < n && tries < 20 * n {
        tries += 1;
        let mut r = rng.fork();
        let cfg = GenCfg {
            max_depth: 2 + (tries % 3) as usize,
            max_nodes: 20,
            max_infos: 3,
            max_actions: 3,
            max_pure: 30,
            pay_lo: -3,
            pay_hi: 3,
            dyadic: tries % 2 == 0,
            degenerate: 0.2,
            ..GenCfg::default()
        };
        let mut t = tree::gen_tree(&mut r, &cfg);
        tree::shorten(&mut t);
        let prof = tree::gen_profile(&mut r, &t, tries % 3, cfg.dyadic);
        let kind = KINDS[((id + 1) % 8) as usize];
        let shared = if kind == "rescale" { share_two_chance_nodes(&mut t, &mut r) } else { None };
        let (mut all, mut chance) = (Vec::new(), Vec::new());
        indices(&t, &mut 0, &mut all, &mut chance);
        let pool = if kind == "rescale" { chance.clone() } else { all.clone() };
        if kind == "rescale" && pool.is_empty() {
            continue;
        }
        let mut nodes: Vec<usize> = Vec::new();
        if ["rescale", "wrapc", "wrapp"].contains(&kind) {
            let want = 1 + r.below(3) as usize;
            for _ in 0..want {
                let x = *r.pick(&pool);
                if !nodes.contains(&x) {
                    nodes.push(x);
                }
            }
            nodes.sort();
        }
        let mut div = 0i64;
        if let Some((a, b)) = shared {
            // one node of the shared chance infoset only
            nodes = vec![if r.chance(0.5) { a } else { b }];
            // every third such case: the constant is 7/10 or 1/10, NOT exact in binary.  The weights of the shared infoset
            // are made powers of two first, so that the rescaled doubles are still EXACTLY proportional (doubling is
            // exact); only the rounding of the normalisation distinguishes the two nodes
            if id % 3 == 0 && powers_of_two_weights(&mut t, a, b) {
                div = 10;
            }
        }
        let mut pl = 1 + r.below(2);
        if kind == "wrapp" && r.chance(0.75) {
            // prefer a position between two decisions of one player: the inserted node must not
            // disturb that player's recall bookkeeping
            let mut cands = Vec::new();
            between(&t, &mut 0, [false, false], &mut cands);
            if !cands.is_empty() {
                let (ix, p) = *r.pick(&cands);
                nodes = vec![ix];
                pl = p as u64;
            }
        }
        // the inserted single-action node is named "wrap" - or like a several-action infoset of the OTHER player that is not
        // also a name of the owner's (infoset names are per player)
        let mut wrap_name = "wrap".to_string();
        if kind == "wrapp" && r.chance(0.6) {
            let (mut own, mut other, mut own_s, mut other_s) = (BTreeMap::new(), BTreeMap::new(), BTreeMap::new(), BTreeMap::new());
            t.infos(pl as u8, &mut own);
            t.infos(3 - pl as u8, &mut other);
            t.singles(pl as u8, &mut own_s);
            t.singles(3 - pl as u8, &mut other_s);
            let _ = other_s;
            if let Some(n) = other.keys().find(|n| !own.contains_key(*n) && !own_s.contains_key(*n)) {
                wrap_name = n.clone();
            }
        }
        let c = match kind {
            "rescale" if div != 0 => *r.pick(&[7i64, 1, 3]),
            "scale" => *r.pick(&[2i64, 3, 7, 4]),
            "shift" => *r.pick(&[1i64, 5, -2, 7]),
            "wrapc" => *r.pick(&[1i64, 5]),
            _ => *r.pick(&[2i64, 3]),
        };
        id += 1;
        let budget = id % 3;
        let par = cfr::gen_rational_params(&mut r, budget);
        out.line(&json!({"id": id, "tree": t, "prof": prof, "par": par, "T": budget,
            "xf": {"kind": kind, "nodes": nodes, "c": c, "pl": pl, "div": div, "name": wrap_name}}));
    }
}

fn profile_of(v: &Value) -> Profile {
    let mut pj = v.clone();
    for side in pj.as_array_mut().unwrap().iter_mut() {
        if side.as_array().map_or(false, |a| a.is_empty()) {
            *side = json!({});
        }
    }
    serde_json::from_value(pj).unwrap()
}

fn ren_info(kind: &str, i: &str) -> String {
    if kind == "rename" {
        format!("R.{i}")
    } else {
        i.to_string()
    }
}

/// per player: multi-action infoset name -> probabilities in the game's action order
type Named = [BTreeMap<String, Vec<f64>>; 2];

struct Solved {
    named: Named,
    bounds: [f64; 2],
    info: [f64; 4],
}

fn solve(t: &Tree, par: &Value, budget: u64) -> Result<Solved, String> {
    solve_k(t, par, budget, 1)
}

fn solve_k(t: &Tree, par: &Value, budget: u64, threads: usize) -> Result<Solved, String> {
    solve_m(t, par, budget, threads, "Full", 0)
}

/// any method; the sampled ones with the draws pinned to a pure function of (site, infoset, pass), so that two
/// presentations with the same infoset numbering follow the same sample
fn solve_m(t: &Tree, par: &Value, budget: u64, threads: usize, meth: &str, draw_seed: u64) -> Result<Solved, String> {
    solve_r(t, par, budget, threads, meth, draw_seed, 0.0)
}

fn solve_r(t: &Tree, par: &Value, budget: u64, threads: usize, meth: &str, draw_seed: u64, max_reg: f64) -> Result<Solved, String> {
    let meth = meth.to_string();
    let t2 = t.clone();
    let par = par.clone();
    util::catch(move || {
        let game = tree::build(&t2).map_err(|e| format!("from_root: {e:?}"))?;
        let dump = game.verif_dump();
        verif::reset();
        if meth != "Full" {
            verif::set_draw_seed(Some(draw_seed));
        }
        let res = game.solve(cfr::method(&meth), budget, max_reg, threads, Some(cfr::params(&par)));
        verif::reset();
        let (strat, bound) = res.map_err(|e| format!("solve: {e:?}"))?;
        let dense = strat.verif_dense();
        let mut named: Named = [BTreeMap::new(), BTreeMap::new()];
        for pl in 0..2 {
            let mut at = 0;
            for info in dump.infos[pl].iter() {
                let k = info.actions.len();
                named[pl].insert(info.infoset.clone(), dense[pl][at..at + k].to_vec());
                at += k;
            }
        }
        let info = strat.get_info();
        Ok(Solved {
            named,
            bounds: [bound.player_regret_bound(PlayerNum::One), bound.player_regret_bound(PlayerNum::Two)],
            info: [info.player_utility(PlayerNum::One), info.player_regret(PlayerNum::One), info.player_regret(PlayerNum::Two), info.regret()],
        })
    })
    .and_then(|r| r)
}

fn rel_close(x: f64, want: f64, tol: f64) -> bool {
    (x.is_infinite() && x == want) || util::close(x, want, tol)
}

/// closeness relative to the magnitude of the value itself (payoff scaling moves everything to another
/// order of magnitude)
fn scale_close(x: f64, want: f64, tol: f64, unit: f64) -> bool {
    x == want || (x - want).abs() <= tol * unit * f64::max(1.0, (want / unit).abs())
}

/// what the evaluation of the transformed game must be, given the original one: [util, r1, r2, total]
fn related_eval(kind: &str, c: f64, e: &[f64; 4]) -> [f64; 4] {
    match kind {
        "scale" => [c * e[0], c * e[1], c * e[2], c * e[3]],
        "shift" => [e[0] + c, e[1], e[2], e[3]],
        "swap" => [-e[0], e[2], e[1], e[3]],
        _ => *e,
    }
}

/// payoffs of both presentations made generic consistently: leaf j of the original gets
/// pay + delta_j, leaf j of the transformed tree the related value (the transformations keep the
/// order of the leaves)
fn genericise(t: &mut Tree, t2: &mut Tree, kind: &str, c: f64, rng: &mut Rng) {
    let mut deltas = Vec::new();
    t.map_pay(&mut |p| {
        let d = ((rng.unit() - 0.5) * 1e5).round() / 1e6;
        deltas.push(p.f() + d);
        Num::F(p.f() + d)
    });
    let mut j = 0;
    t2.map_pay(&mut |_| {
        let x = deltas[j];
        j += 1;
        Num::F(match kind {
            "scale" => c * x,
            "shift" => x + c,
            "swap" => -x,
            _ => x,
        })
    });
}

fn has_wide_chance(t: &Tree) -> bool {
    match t {
        Tree::T { .. } => false,
        Tree::C { kids, .. } => kids.len() >= 2 || kids.iter().any(|k| has_wide_chance(&k.t)),
        Tree::P { kids, .. } => kids.iter().any(|k| has_wide_chance(&k.t)),
    }
}

fn compare_solves(kind: &str, c: f64, a: &Solved, b: &Solved, tol: f64, label: &str, bad: &mut Vec<Value>) {
    let swap = kind == "swap";
    for pl in 0..2 {
        let q = if swap { 1 - pl } else { pl };
        if a.named[pl].len() != b.named[q].len() {
            bad.push(json!({"class": "solve", "what": "the two presentations have different numbers of infosets", "run": label}));
        }
        for (name, probs) in a.named[pl].iter() {
            match b.named[q].get(&ren_info(kind, name)) {
                None => bad.push(json!({"class": "solve", "what": "an infoset is missing in the other presentation", "infoset": name, "run": label})),
                Some(other) => {
                    if probs.len() != other.len() || probs.iter().zip(other.iter()).any(|(x, y)| !util::close(*x, *y, tol)) {
                        bad.push(json!({"class": "solve", "what": "the deterministic solver returns different strategies for two presentations of one game",
                            "run": label, "player": pl + 1, "infoset": name, "original": probs, "transformed": other}));
                    }
                }
            }
        }
        let want = if kind == "scale" { c * a.bounds[pl] } else { a.bounds[pl] };
        let bound_ok = if kind == "scale" { scale_close(b.bounds[q], want, tol, c) || rel_close(b.bounds[q], want, 0.0) } else { rel_close(b.bounds[q], want, tol) };
        if !bound_ok {
            bad.push(json!({"class": "bound", "what": "regret bounds of two presentations are not related as stated", "run": label,
                "player": pl + 1, "original": a.bounds[pl], "transformed": b.bounds[q]}));
        }
    }
    let want = related_eval(kind, c, &a.info);
    for j in 0..4 {
        let ok = if kind == "scale" { scale_close(b.info[j], want[j], tol * 10.0, c) } else { util::close(b.info[j], want[j], tol * 10.0) };
        if !ok {
            bad.push(json!({"class": "solved-eval", "what": "utility / regrets of the solutions of two presentations are not related as stated",
                "run": label, "index": j, "original": a.info[j], "transformed": b.info[j]}));
        }
    }
}

pub fn replay(args: &Args) {
    let cases = util::read_ndjson(args.get("cases"));
    let exps = util::read_ndjson(args.get("exp"));
    let thorough = args.get_or("thorough", "0") == "1";
    let mut out = Out::create(args.get("out"));
    let by_id: std::collections::HashMap<i64, &Value> = exps.iter().map(|e| (e["id"].as_i64().unwrap(), &e["exp"])).collect();
    for case in cases.iter() {
        let id = case["id"].as_i64().unwrap();
        let Some(exp) = by_id.get(&id) else {
            out.line(&json!({"id": id, "status": "noexp"}));
            continue;
        };
        let t: Tree = serde_json::from_value(case["tree"].clone()).unwrap();
        let mut t2: Tree = serde_json::from_value(exp["tree2"].clone()).unwrap();
        let div = case["xf"]["div"].as_i64().unwrap_or(0);
        if div != 0 {
            let nodes: Vec<usize> = case["xf"]["nodes"].as_array().unwrap().iter().map(|x| x.as_u64().unwrap() as usize).collect();
            divide_weights(&mut t2, &nodes, div as f64);
        }
        let prof = profile_of(&case["prof"]);
        let prof2 = profile_of(&exp["prof2"]);
        let kind = case["xf"]["kind"].as_str().unwrap();
        let c = case["xf"]["c"].as_i64().unwrap() as f64;
        let mut bad = Vec::new();
        // ---- evaluation of corresponding profiles on both presentations
        let sides = [(&t, &prof, &exp["eval"], "original"), (&t2, &prof2, &exp["eval2"], "transformed")];
        let mut evals: Vec<[f64; 4]> = Vec::new();
        for (tt, pp, ex, label) in sides {
            match eval::evaluate(tt, pp) {
                Err(msg) => bad.push(json!({"class": "failed", "what": "a presentation of a valid game was rejected or its evaluation failed",
                    "side": label, "observed": msg})),
                Ok(v) => {
                    let got = [v[0], v[2], v[3], v[4]];
                    if ex["poisoned"].as_bool() == Some(false) {
                        let want = [util::rat(&ex["util"]), util::rat(&ex["r1"]), util::rat(&ex["r2"]), util::rat(&ex["total"])];
                        for j in 0..4 {
                            if !util::close(got[j], want[j], 1e-11) {
                                bad.push(json!({"class": "eval", "what": "evaluation differs from the exact value", "side": label, "index": j,
                                    "observed": got[j], "specified": want[j]}));
                            }
                        }
                    }
                    evals.push(got);
                }
            }
        }
        if evals.len() == 2 {
            let want = related_eval(kind, c, &evals[0]);
            for j in 0..4 {
                if !util::close(evals[1][j], want[j], 1e-11) {
                    bad.push(json!({"class": "eval-related", "what": "evaluations of two presentations are not related as stated", "index": j,
                        "original": evals[0][j], "transformed": evals[1][j]}));
                }
            }
        }
        // ---- the exact model on the case's own (rational) parameters and budget
        let budget = case["T"].as_u64().unwrap();
        let exact = |s: &Value| s["status"].as_str() == Some("ok") && s["tie"].as_bool() == Some(false);
        for (tt, s, label) in [(&t, &exp["solve"], "original"), (&t2, &exp["solve2"], "transformed")] {
            match solve(tt, &case["par"], budget) {
                Err(msg) => bad.push(json!({"class": "panic", "what": "solve failed or panicked", "side": label, "observed": msg})),
                Ok(run) => {
                    if exact(s) {
                        for pl in 0..2 {
                            for (name, probs) in run.named[pl].iter() {
                                let want: Vec<f64> = s["avg"][pl][name].as_array().map_or(Vec::new(), |a| a.iter().map(util::rat).collect());
                                if want.len() != probs.len() || probs.iter().zip(want.iter()).any(|(x, y)| !util::close(*x, *y, 1e-10)) {
                                    bad.push(json!({"class": "returned", "what": "returned strategy differs from the documented algorithm", "side": label,
                                        "player": pl + 1, "infoset": name, "observed": probs, "specified": s["avg"][pl][name]}));
                                }
                            }
                            if budget >= 1 && !util::close(run.bounds[pl], util::rat(&s["bounds"][pl]), 1e-10) {
                                bad.push(json!({"class": "bound", "what": "returned bound differs from the documented algorithm", "side": label,
                                    "player": pl + 1, "observed": run.bounds[pl], "specified": s["bounds"][pl]}));
                            }
                        }
                    }
                }
            }
        }
        // ---- implementation versus implementation at longer budgets
        // integer payoffs where both sides perform the same floating-point operations up to exact
        // scalings / sign flips; generic payoffs (no exact ties) otherwise (DESIGN 3.4)
        // (a rescale by 3/10 or 7/10 leaves the probabilities of a shared chance infoset an ulp apart: not the same operations)
        let same_ops = !(kind == "shift" || (kind == "scale" && c != 2.0 && c != 4.0) || (kind == "rescale" && div != 0));
        let (mut ga, mut gb) = (t.clone(), t2.clone());
        let mut rng = Rng::new(id as u64 ^ 0x12c);
        if !same_ops {
            genericise(&mut ga, &mut gb, kind, c, &mut rng);
        }
        let tol = if same_ops { 1e-12 } else { 1e-9 };
        // Two presentations whose floating-point operations differ (shift, scale by 3 or 7) drift apart
        // chaotically on long runs: a cumulative regret crosses zero one iteration earlier or later and
        // the averages then differ by O(1/T).  Measured: 7 of 6000 thorough cases at T = 1000 (up to 3e-4),
        // none at T <= 100.  Long budgets are therefore compared only where both sides perform the same
        // operations (DESIGN 3.4).
        let budgets: &[u64] = if thorough { if same_ops { &[1, 2, 3, 10, 100, 1000] } else { &[1, 2, 3, 10, 30, 100] } } else { &[1, 3, 10, 100] };
        let mut runs = 0;
        for (bi, &b) in budgets.iter().enumerate() {
            let names: Vec<&str> = if thorough { PRESETS.to_vec() } else { vec![PRESETS[(id as usize + bi) % 5], PRESETS[(id as usize + bi + 2) % 5]] };
            for name in names {
                // "strategies unchanged under payoff scaling" cannot hold for a finite non-zero softmax
                // weight; all presets have weight +inf
                let par = cfr::preset(name);
                match (solve(&ga, &par, b), solve(&gb, &par, b)) {
                    (Ok(x), Ok(y)) => {
                        runs += 1;
                        compare_solves(kind, c, &x, &y, tol, &format!("{name} T={b}"), &mut bad);
                    }
                    (x, y) => bad.push(json!({"class": "panic", "what": "solve failed or panicked", "run": format!("{name} T={b}"),
                        "original": x.err(), "transformed": y.err()})),
                }
            }
        }
        // ---- the same relation with two threads (the parallel decomposition treats the two players' nodes by different
        // code; generic payoffs, short budgets: summation order only)
        {
            let (mut ha, mut hb) = (t.clone(), t2.clone());
            genericise(&mut ha, &mut hb, kind, c, &mut rng);
            for (bi, b) in [3u64, 10].into_iter().enumerate() {
                let name = PRESETS[(id as usize + bi + 1) % 5];
                let par = cfr::preset(name);
                match (solve_k(&ha, &par, b, 2), solve_k(&hb, &par, b, 2)) {
                    (Ok(x), Ok(y)) => {
                        runs += 1;
                        compare_solves(kind, c, &x, &y, 1e-9, &format!("{name} T={b} two threads"), &mut bad);
                    }
                    (x, y) => bad.push(json!({"class": "panic", "what": "solve failed or panicked", "run": format!("{name} T={b} two threads"),
                        "original": x.err(), "transformed": y.err()})),
                }
            }
        }
        // ---- the same relation when the run is ended by a regret threshold: both presentations must stop after the same
        // iteration (the threshold is in the units of the presentation; it lies well inside the range the bounds cross)
        {
            let (mut ha, mut hb) = (t.clone(), t2.clone());
            genericise(&mut ha, &mut hb, kind, c, &mut rng);
            let name = PRESETS[(id as usize + 3) % 5];
            let par = cfr::preset(name);
            if let Ok(x0) = solve_k(&ha, &par, 10, 1) {
                let r = 0.75 * f64::max(x0.bounds[0], x0.bounds[1]);
                if r.is_finite() && r > 0.0 {
                    let r2 = if kind == "scale" { r * c } else { r };
                    match (solve_r(&ha, &par, 200, 1, "Full", 0, r), solve_r(&hb, &par, 200, 1, "Full", 0, r2)) {
                        (Ok(x), Ok(y)) => {
                            runs += 1;
                            compare_solves(kind, c, &x, &y, 1e-9, &format!("{name} T<=200 threshold {r}"), &mut bad);
                        }
                        (x, y) => bad.push(json!({"class": "panic", "what": "solve failed or panicked", "run": format!("{name} threshold {r}"),
                            "original": x.err(), "transformed": y.err()})),
                    }
                }
            }
        }
        // ---- payoff scaling by powers of two (exact in binary floating point): the relation of
        // Transform.tla's "scale" far outside the number range of the exact model; both sides perform the
        // same operations on scaled numbers, so strategies must agree to the last bits
        for (ei, e) in [-80i32, 60].into_iter().enumerate() {
            let c2 = 2f64.powi(e);
            let mut scaled = t.clone();
            scaled.map_pay(&mut |p| Num::F(p.f() * c2));
            let name = PRESETS[(id as usize + ei) % 5];
            let b = [2u64, 7, 40][(id as usize + ei) % 3];
            let par = cfr::preset(name);
            match (solve(&t, &par, b), solve(&scaled, &par, b)) {
                (Ok(x), Ok(y)) => {
                    runs += 1;
                    compare_solves("scale", c2, &x, &y, 1e-13, &format!("{name} T={b} payoffs x 2^{e}"), &mut bad);
                }
                (x, y) => bad.push(json!({"class": "panic", "what": "solve failed or panicked", "run": format!("{name} T={b} payoffs x 2^{e}"),
                    "original": x.err(), "transformed": y.err()})),
            }
            // ... and the sampled methods under pinned draws (the unit of the payoffs must not matter to them either: no
            // absolute threshold anywhere)
            let meth = ["Sampled", "External"][(id as usize + ei) % 2];
            let b2 = 40;
            match (solve_m(&t, &par, b2, 1, meth, id as u64), solve_m(&scaled, &par, b2, 1, meth, id as u64)) {
                (Ok(x), Ok(y)) => {
                    runs += 1;
                    compare_solves("scale", c2, &x, &y, 1e-13, &format!("{meth} {name} T={b2} payoffs x 2^{e}"), &mut bad);
                }
                (x, y) => bad.push(json!({"class": "panic", "what": "solve failed or panicked", "run": format!("{meth} {name} T={b2} payoffs x 2^{e}"),
                    "original": x.err(), "transformed": y.err()})),
            }
        }
        // ---- chance weights of the WHOLE tree rescaled by 2^-1040 (subnormal weights; the reciprocal of a node's total is
        // not a finite number) or 2^1000: small integers times a power of two are exact, so are their sums, and the
        // quotient weight / total is the same correctly rounded number: evaluation and solution must agree to the last bits
        if has_wide_chance(&t) {
            let e = if id % 2 == 0 { -1040 } else { 1000 };
            let scaled = t.scale_weights(e);
            let name = PRESETS[(id as usize) % 5];
            let b = [2u64, 7, 40][(id as usize) % 3];
            let par = cfr::preset(name);
            match (solve(&t, &par, b), solve(&scaled, &par, b)) {
                (Ok(x), Ok(y)) => {
                    runs += 1;
                    compare_solves("rescale", 1.0, &x, &y, 1e-13, &format!("{name} T={b} every chance weight x 2^{e}"), &mut bad);
                }
                (x, y) => bad.push(json!({"class": "panic", "what": "solve failed or panicked", "run": format!("{name} T={b} every chance weight x 2^{e}"),
                    "original": x.err(), "transformed": y.err()})),
            }
        }
        if bad.is_empty() {
            out.line(&json!({"id": id, "status": "ok", "nontrivial": true, "runs": runs, "kind": kind,
                "exact": exact(&exp["solve"]) && exact(&exp["solve2"])}));
        } else {
            bad.truncate(6);
            out.line(&json!({"id": id, "status": "violation", "mismatch": bad, "kind": kind}));
        }
    }
}
