//! C08 and friends: binding Cfr.tla to the production solvers (one-step conformance from injected
//! states, short exact trajectories), shared helpers for parameters, draws and state injection.
use crate::rng::Rng;
use crate::tree::{self, GenCfg, Tree};
use crate::util::{self, Args, Out};
use cfr::verif::{Dump, DumpNode, InfoState, Pin, Site};
pub use cfr::verif;
pub use cfr::PlayerNum;
use cfr::{RegretParams, SolveMethod};
use serde_json::{json, Value};
use std::collections::{BTreeMap, HashMap};

pub fn e_val(e: &Value) -> f64 {
    match e[0].as_str().unwrap() {
        "pinf" => f64::INFINITY,
        "ninf" => f64::NEG_INFINITY,
        _ => e[1].as_i64().unwrap() as f64 / e[2].as_i64().unwrap() as f64,
    }
}

/// the documented tuples of the presets are bound to the library's constructors: a parameter tuple
/// equal to a preset's documented tuple is built with the constructor of that name
pub fn params(par: &Value) -> RegretParams {
    if *par == preset("vanilla") {
        RegretParams::vanilla()
    } else if *par == preset("lcfr") {
        RegretParams::lcfr()
    } else if *par == preset("cfr_plus") {
        RegretParams::cfr_plus()
    } else if *par == preset("dcfr") {
        RegretParams::dcfr()
    } else if *par == preset("dcfr_prune") {
        RegretParams::dcfr_prune()
    } else {
        RegretParams::new(e_val(&par["a"]), e_val(&par["b"]), e_val(&par["g"]), e_val(&par["w"]))
    }
}

/// `None` (omitted parameters) is documented to mean dcfr: used for every other dcfr case
pub fn params_opt(par: &Value, id: i64) -> Option<RegretParams> {
    if *par == preset("dcfr") && id % 2 == 0 {
        None
    } else {
        Some(params(par))
    }
}

pub fn method(name: &str) -> SolveMethod {
    match name {
        "Full" => SolveMethod::Full,
        "Sampled" => SolveMethod::Sampled,
        "External" => SolveMethod::External,
        other => panic!("method {other}"),
    }
}

pub const METHODS: [&str; 3] = ["Full", "Sampled", "External"];

pub fn preset(name: &str) -> Value {
    match name {
        "vanilla" => json!({"a": ["pinf"], "b": ["pinf"], "g": ["q", 0, 1], "w": ["q", 0, 1]}),
        "lcfr" => json!({"a": ["q", 1, 1], "b": ["q", 1, 1], "g": ["q", 1, 1], "w": ["pinf"]}),
        "cfr_plus" => json!({"a": ["pinf"], "b": ["ninf"], "g": ["q", 2, 1], "w": ["pinf"]}),
        "dcfr" => json!({"a": ["q", 3, 2], "b": ["q", 0, 1], "g": ["q", 2, 1], "w": ["pinf"]}),
        "dcfr_prune" => json!({"a": ["q", 3, 2], "b": ["q", 1, 2], "g": ["q", 2, 1], "w": ["pinf"]}),
        other => panic!("preset {other}"),
    }
}

pub const PRESETS: [&str; 5] = ["vanilla", "lcfr", "cfr_plus", "dcfr", "dcfr_prune"];

/// prefix of the labels `label_chance` invents
pub const ANON: &str = "~anon";

/// the tree as it was before `label_chance`: invented labels removed again.  Solving THIS tree while aligning the
/// compact game with the labelled one checks that a chance node without an infoset is an infoset of its own
pub fn unlabelled(tree: &Tree) -> Tree {
    match tree {
        Tree::T { .. } => tree.clone(),
        Tree::C { ci, kids } => Tree::C {
            ci: if ci.starts_with(ANON) { "none".to_string() } else { ci.clone() },
            kids: kids.iter().map(|k| crate::tree::CKid { w: k.w.clone(), t: unlabelled(&k.t) }).collect(),
        },
        Tree::P { pl, info, kids } => Tree::P { pl: *pl, info: info.clone(), kids: kids.iter().map(|k| crate::tree::PKid { a: k.a.clone(), t: unlabelled(&k.t) }).collect() },
    }
}

/// the DECLARED chance infoset of every node of the compact game ("" for other nodes): the label of the raw tree
/// (labelled by `label_chance`, so nodes declared without an infoset carry distinct labels)
pub fn declared(tree: &Tree, dump: &Dump<String, String>) -> Vec<String> {
    fn rec(t: &Tree, d: &Dump<String, String>, id: usize, out: &mut Vec<String>) {
        match t {
            Tree::T { .. } => {}
            Tree::C { kids, .. } if kids.len() == 1 => rec(&kids[0].t, d, id, out),
            Tree::P { kids, .. } if kids.len() == 1 => rec(&kids[0].t, d, id, out),
            Tree::C { ci, kids } => {
                if let DumpNode::Chance(_, dk) = &d.nodes[id] {
                    out[id] = ci.clone();
                    for (k, c) in kids.iter().zip(dk.iter()) {
                        rec(&k.t, d, *c, out);
                    }
                }
            }
            Tree::P { kids, .. } => {
                if let DumpNode::Player(_, _, dk) = &d.nodes[id] {
                    for (k, c) in kids.iter().zip(dk.iter()) {
                        rec(&k.t, d, *c, out);
                    }
                }
            }
        }
    }
    let mut out = vec![String::new(); dump.nodes.len()];
    rec(tree, dump, 0, &mut out);
    out
}

/// give every several-outcome chance node without a label a unique one
pub fn label_chance(tree: &mut Tree) {
    fn rec(t: &mut Tree, n: &mut usize) {
        match t {
            Tree::T { .. } => {}
            Tree::C { ci, kids } => {
                if ci == "none" && kids.len() >= 2 {
                    *ci = format!("{ANON}{n}");
                    *n += 1;
                }
                kids.iter_mut().for_each(|k| rec(&mut k.t, n));
            }
            Tree::P { kids, .. } => kids.iter_mut().for_each(|k| rec(&mut k.t, n)),
        }
    }
    rec(tree, &mut 0);
}

/// chance labels (of several-outcome nodes) in the raw tree
pub fn chance_labels(t: &Tree, out: &mut Vec<String>) {
    match t {
        Tree::T { .. } => {}
        Tree::C { ci, kids } => {
            if kids.len() >= 2 && !out.contains(ci) {
                out.push(ci.clone());
            }
            kids.iter().for_each(|k| chance_labels(&k.t, out));
        }
        Tree::P { kids, .. } => kids.iter().for_each(|k| chance_labels(&k.t, out)),
    }
}

/// walk the raw tree and the compact dump in parallel: chance label -> chance infoset index
pub fn align(tree: &Tree, dump: &Dump<String, String>) -> HashMap<String, usize> {
    fn rec(t: &Tree, d: &Dump<String, String>, id: usize, out: &mut HashMap<String, usize>) {
        match t {
            Tree::T { .. } => {}
            Tree::C { kids, .. } if kids.len() == 1 => rec(&kids[0].t, d, id, out),
            Tree::P { kids, .. } if kids.len() == 1 => rec(&kids[0].t, d, id, out),
            Tree::C { ci, kids } => {
                if let DumpNode::Chance(ix, dk) = &d.nodes[id] {
                    out.insert(ci.clone(), *ix);
                    for (k, c) in kids.iter().zip(dk.iter()) {
                        rec(&k.t, d, *c, out);
                    }
                } else {
                    panic!("raw tree and compact game do not line up at a chance node");
                }
            }
            Tree::P { kids, .. } => {
                if let DumpNode::Player(_, _, dk) = &d.nodes[id] {
                    for (k, c) in kids.iter().zip(dk.iter()) {
                        rec(&k.t, d, *c, out);
                    }
                } else {
                    panic!("raw tree and compact game do not line up at a decision node");
                }
            }
        }
    }
    let mut out = HashMap::new();
    rec(tree, dump, 0, &mut out);
    out
}

fn ratv(v: &Value) -> Vec<f64> {
    v.as_array().unwrap().iter().map(util::rat).collect()
}

/// model state (by infoset name) -> hook state (by infoset index)
pub fn state_of(state: &Value, dump: &Dump<String, String>) -> verif::State {
    let side = |pl: usize| -> Vec<InfoState> {
        dump.infos[pl]
            .iter()
            .map(|i| {
                let s = &state[pl][&i.infoset];
                InfoState {
                    cum_regret: ratv(&s["r"]),
                    cum_strat: ratv(&s["s"]),
                    strat: ratv(&s["cur"]),
                }
            })
            .collect()
    };
    [side(0), side(1)]
}

/// the pinned draws of `iters` iterations (model keys: label / infoset name, iteration, half)
/// translated to the pass counters of the hooks.  `draws[k]` are the draws of the k-th executed
/// iteration.
pub fn draw_table(draws: &[Value], meth: &str, tree: &Tree, dump: &Dump<String, String>) -> HashMap<(Site, usize, u64), Pin> {
    let labels = align(tree, dump);
    let mut table = HashMap::new();
    for (k, dr) in draws.iter().enumerate() {
        let k = k as u64;
        for (label, us) in dr["c"].as_object().unwrap() {
            let Some(ci) = labels.get(label) else { continue };
            if meth == "External" {
                table.insert((Site::Chance, *ci, 2 * k), Pin::Variate(util::rat(&us[0])));
                table.insert((Site::Chance, *ci, 2 * k + 1), Pin::Variate(util::rat(&us[1])));
            } else {
                table.insert((Site::Chance, *ci, k), Pin::Variate(util::rat(&us[0])));
            }
        }
        for pl in 0..2 {
            let Some(map) = dr["p"][pl].as_object() else { continue };
            for (name, u) in map {
                let Some(ix) = dump.infos[pl].iter().position(|i| &i.infoset == name) else { continue };
                // player two's infosets are sampled in the first half (k advances so far), player
                // one's in the second half (k + 1 advances so far)
                let (site, pass) = if pl == 0 { (Site::One, k + 1) } else { (Site::Two, k) };
                table.insert((site, ix, pass), Pin::Variate(util::rat(u)));
            }
        }
    }
    table
}

fn gen_e(rng: &mut Rng, choices: &[Value]) -> Value {
    rng.pick(choices).clone()
}

pub fn gen_params(rng: &mut Rng) -> Value {
    if rng.chance(0.35) {
        return preset(PRESETS[rng.below(5) as usize]);
    }
    let ab = [
        json!(["ninf"]), json!(["q", -1, 1]), json!(["q", 0, 1]), json!(["q", 1, 2]), json!(["q", 1, 1]),
        json!(["q", 3, 2]), json!(["q", 2, 1]), json!(["pinf"]),
    ];
    let g = [json!(["q", 0, 1]), json!(["q", 1, 2]), json!(["q", 1, 1]), json!(["q", 2, 1]), json!(["q", 3, 1])];
    // (weights of magnitude 1000: weight x regret spread is far beyond the range of exp - the documented softmax is
    // invariant under a common shift of the exponents and must be computed that way)
    let w = [json!(["ninf"]), json!(["q", -1, 1]), json!(["q", 0, 1]), json!(["q", 1, 2]), json!(["q", 1, 1]), json!(["pinf"]),
             json!(["q", -1000, 1]), json!(["q", 1000, 1])];
    json!({"a": gen_e(rng, &ab), "b": gen_e(rng, &ab), "g": gen_e(rng, &g), "w": gen_e(rng, &w)})
}

/// uniform variates j/997: never on an interval endpoint of a distribution with small denominators
pub fn gen_draws(rng: &mut Rng, tree: &Tree) -> Value {
    let mut labels = Vec::new();
    chance_labels(tree, &mut labels);
    let mut c = serde_json::Map::new();
    for l in labels {
        c.insert(l, json!([[rng.range(1, 996), 997], [rng.range(1, 996), 997]]));
    }
    let mut p = Vec::new();
    for pl in 1..=2u8 {
        let mut infos = BTreeMap::new();
        tree.infos(pl, &mut infos);
        let mut m = serde_json::Map::new();
        for name in infos.keys() {
            m.insert(name.clone(), json!([rng.range(1, 996), 997]));
        }
        p.push(Value::Object(m));
    }
    json!({"c": c, "p": p})
}

fn small_cfg(id: u64) -> GenCfg {
    GenCfg {
        max_depth: 2 + (id % 3) as usize,
        max_nodes: 16,
        max_infos: 3,
        max_actions: 3,
        max_pure: 30,
        pay_lo: -3,
        pay_hi: 3,
        dyadic: id % 2 == 0,
        degenerate: 0.1,
        ..GenCfg::default()
    }
}

pub fn gen_step(args: &Args) {
    let seed = args.num("seed", 1);
    let n = args.num("n", 100);
    let mut out = Out::create(args.get("out"));
    let mut rng = Rng::new(seed ^ 0xc08);
    let regs = [(-2, 1), (-1, 1), (-1, 2), (0, 1), (1, 2), (1, 1), (3, 1)];
    let strs = [(0, 1), (1, 2), (1, 1), (2, 1)];
    for id in 1..=n {
        let mut r = rng.fork();
        let mut t = tree::gen_tree(&mut r, &small_cfg(id));
        tree::shorten(&mut t);
        label_chance(&mut t);
        let meth = METHODS[(id % 3) as usize];
        let par = gen_params(&mut r);
        // the iteration index: small ones, powers of two and their neighbours, round numbers - and, for a third of the
        // cases, any index up to 300 (something done only every k-th iteration shows at a multiple of k)
        let it = if r.chance(0.33) { r.range(2, 300) } else { *r.pick(&[1i64, 2, 3, 7, 50, 64, 255, 256, 1000, 1024, 1025, 4096, 65536, 65537, 1048575, 1048576, 1048577]) };
        let mut state = Vec::new();
        for pl in 1..=2u8 {
            let mut infos = BTreeMap::new();
            t.infos(pl, &mut infos);
            let mut m = serde_json::Map::new();
            for (name, acts) in infos.iter() {
                let k = acts.len();
                // regret pattern: 0 anything, 1 all negative, 2 all zero, 3 tie at the top of non-positives
                let pattern = r.below(6);
                let mut rv: Vec<(i64, i64)> = (0..k).map(|_| *r.pick(&regs)).collect();
                match pattern {
                    1 => rv.iter_mut().for_each(|x| *x = *r.pick(&regs[..3])),
                    2 => rv.iter_mut().for_each(|x| *x = (0, 1)),
                    3 => rv.iter_mut().for_each(|x| *x = (-1, 1)),
                    _ => {}
                }
                let sv: Vec<(i64, i64)> = (0..k).map(|_| *r.pick(&strs)).collect();
                // current strategy: composition of 4 into k parts
                let mut parts = vec![0i64; k];
                for _ in 0..4 {
                    parts[r.below(k as u64) as usize] += 1;
                }
                let cur: Vec<(i64, i64)> = parts.iter().map(|p| (*p, 4)).collect();
                m.insert(name.clone(), json!({"r": rv, "s": sv, "cur": cur}));
            }
            state.push(Value::Object(m));
        }
        let draws = gen_draws(&mut r, &t);
        // payoff scale class: CFR is positively homogeneous in the payoffs, so the same case with all
        // payoffs and regrets multiplied by a power of two (exact in binary floating point) must give the
        // same strategies and scaled regrets / bounds - for magnitudes far from one too.  A finite non-zero
        // softmax weight is not scale invariant and is only used at scale one.
        let w = &par["w"];
        let invariant = w[0] != "q" || w[1] == 0;
        let scale: i64 = if !invariant { 0 } else { [0, -70, 0, 60][(id % 4) as usize] };
        out.line(&json!({"id": id, "tree": t, "method": meth, "par": par, "t": it, "state": state, "draws": draws, "scale": scale}));
    }
}

/// value of a model number [c, atom] under the documented formulas
fn num(x: &Value, t: f64, tavg: f64, par: &Value) -> f64 {
    let c = util::rat(&x["c"]);
    let disc = |e: &Value| -> f64 {
        let e = e_val(e);
        if e == f64::NEG_INFINITY {
            0.0
        } else if e == f64::INFINITY {
            1.0
        } else {
            let p = t.powf(e);
            p / (p + 1.0)
        }
    };
    match x["atom"].as_str().unwrap() {
        "one" => c,
        "pos" => c * disc(&par["a"]),
        "neg" => c * disc(&par["b"]),
        "avg" => c * (tavg / (tavg + 1.0)).powf(e_val(&par["g"])),
        other => panic!("atom {other}"),
    }
}

fn softmax(pre: &[f64], w: f64) -> Vec<f64> {
    let m = pre.iter().map(|r| r * w).fold(f64::NEG_INFINITY, f64::max);
    let e: Vec<f64> = pre.iter().map(|r| (r * w - m).exp()).collect();
    let s: f64 = e.iter().sum();
    e.iter().map(|x| x / s).collect()
}

fn vec_close(a: &[f64], b: &[f64], tol: f64) -> bool {
    a.len() == b.len() && a.iter().zip(b.iter()).all(|(x, y)| util::close(*x, *y, tol))
}

struct StepRun {
    state: verif::State,
    bounds: [f64; 2],
    avg: [Vec<f64>; 2],
}

fn run_step(t: &Tree, case: &Value, threads: usize) -> Result<StepRun, String> {
    let t2 = t.clone();
    let case = case.clone();
    util::catch(move || {
        let sigma = 2f64.powi(case["scale"].as_i64().unwrap_or(0) as i32);
        let mut t2 = t2;
        if sigma != 1.0 {
            t2.map_pay(&mut |p| tree::Num::F(p.f() * sigma));
        }
        let game = tree::build(&unlabelled(&t2)).map_err(|e| format!("from_root: {e:?}"))?;
        let dump = game.verif_dump();
        let meth = case["method"].as_str().unwrap();
        let it = case["t"].as_u64().unwrap();
        verif::reset();
        let mut inj = state_of(&case["state"], &dump);
        for side in inj.iter_mut() {
            for info in side.iter_mut() {
                info.cum_regret.iter_mut().for_each(|x| *x *= sigma);
            }
        }
        verif::set_inject(Some(inj));
        verif::set_first_it(it);
        verif::set_draw_table(Some(draw_table(&[case["draws"].clone()], meth, &t2, &dump)));
        verif::set_draw_seed(Some(12345));
        let res = game.solve(method(meth), it, 0.0, threads, params_opt(&case["par"], case["id"].as_i64().unwrap_or(1)));
        let ext = verif::take_extract();
        verif::reset();
        let (strat, bound) = res.map_err(|e| format!("solve: {e:?}"))?;
        Ok(StepRun {
            state: ext.ok_or("no state extracted")?,
            bounds: [bound.player_regret_bound(PlayerNum::One), bound.player_regret_bound(PlayerNum::Two)],
            avg: strat.verif_dense(),
        })
    })
    .and_then(|r| r)
}

pub fn replay_step(args: &Args) {
    let cases = util::read_ndjson(args.get("cases"));
    let exps = util::read_ndjson(args.get("exp"));
    let mut out = Out::create(args.get("out"));
    let by_id: HashMap<i64, &Value> = exps.iter().map(|e| (e["id"].as_i64().unwrap(), &e["exp"])).collect();
    let tol = 1e-10;
    for case in cases.iter() {
        let id = case["id"].as_i64().unwrap();
        let Some(exp) = by_id.get(&id) else {
            out.line(&json!({"id": id, "status": "noexp"}));
            continue;
        };
        let t: Tree = serde_json::from_value(case["tree"].clone()).unwrap();
        let par = &case["par"];
        let half = exp["half"].as_bool().unwrap();
        let game = tree::build(&unlabelled(&t)).expect("valid");
        let dump = game.verif_dump();
        let mut bad = Vec::new();
        let mut kinds: Vec<String> = Vec::new();
        let mut poisoned = false;
        // quantities in payoff units (regrets, bounds) are compared relative to the case's payoff scale
        let sigma = 2f64.powi(case["scale"].as_i64().unwrap_or(0) as i32);
        let unit_close = |x: f64, want: f64| -> bool { util::close(x / sigma, want, tol) };
        for threads in [1usize, 2] {
            let run = match run_step(&t, case, threads) {
                Ok(r) => r,
                Err(msg) => {
                    bad.push(json!({"class": "panic", "what": "solve failed or panicked", "threads": threads, "observed": msg}));
                    continue;
                }
            };
            let mut want_bounds = [0.0f64; 2];
            for pl in 0..2 {
                if half && pl == 1 {
                    break;
                }
                let side = if pl == 0 { &exp["one"] } else { &exp["two"] };
                let mut at = 0;
                for (ix, info) in dump.infos[pl].iter().enumerate() {
                    let e = &side[&info.infoset];
                    let got = &run.state[pl][ix];
                    let k = info.actions.len();
                    let tt = e["t"].as_f64().unwrap();
                    let tavg = e["tavg"].as_f64().unwrap();
                    let all: Vec<&Value> = e["r"].as_array().unwrap().iter().chain(e["s"].as_array().unwrap().iter()).collect();
                    if all.iter().any(|x| util::is_poison(&x["c"])) || util::is_poison(&e["bound"]["c"]) {
                        poisoned = true;
                        at += k;
                        continue;
                    }
                    let want_r: Vec<f64> = e["r"].as_array().unwrap().iter().map(|x| num(x, tt, tavg, par)).collect();
                    if !(got.cum_regret.len() == want_r.len() && got.cum_regret.iter().zip(want_r.iter()).all(|(x, y)| unit_close(*x, *y))) {
                        bad.push(json!({"class": "regret", "what": "cumulative regret after the iteration differs", "threads": threads,
                            "player": pl + 1, "infoset": info.infoset, "observed": got.cum_regret, "specified": want_r}));
                    }
                    let kind = e["kind"].as_str().unwrap();
                    if threads == 1 {
                        kinds.push(kind.to_string());
                    }
                    let pre: Vec<f64> = e["pre"].as_array().unwrap().iter().map(util::rat).collect();
                    // a fragile decision (an exactly zero regret that floating point sees as noise):
                    // any distribution over the zero entries is as admissible as the fallback
                    let fragile = e["fragile"].as_bool() == Some(true);
                    let relaxed = fragile
                        && got.strat.iter().zip(pre.iter()).all(|(p, r)| *r == 0.0 || *p == 0.0)
                        && (got.strat.iter().sum::<f64>() - 1.0).abs() < 1e-9;
                    let strat_ok = if relaxed {
                        true
                    } else if kind == "softmax" {
                        vec_close(&got.strat, &softmax(&pre, e_val(&par["w"])), 1e-9)
                    } else {
                        e["next"].as_array().unwrap().iter().any(|cand| vec_close(&got.strat, &ratv(cand), tol))
                    };
                    if !strat_ok {
                        bad.push(json!({"class": format!("strategy:{kind}"), "what": "next strategy is not an admissible regret-matching result", "threads": threads,
                            "player": pl + 1, "infoset": info.infoset, "observed": got.strat, "specified": e["next"], "pre": pre}));
                    }
                    if !(half && pl == 0) {
                        let mut want_s: Vec<f64> = e["s"].as_array().unwrap().iter().map(|x| num(x, tt, tavg, par)).collect();
                        if pl == 0 && !exp["onepost"].is_null() {
                            for (w, inc) in want_s.iter_mut().zip(ratv(&exp["onepost"][&info.infoset])) {
                                *w += inc;
                            }
                        }
                        if !vec_close(&got.cum_strat, &want_s, tol) {
                            bad.push(json!({"class": "average", "what": "cumulative strategy after the iteration differs", "threads": threads,
                                "player": pl + 1, "infoset": info.infoset, "observed": got.cum_strat, "specified": want_s}));
                        }
                        // final normalisation of the returned profile
                        let tot: f64 = want_s.iter().sum();
                        let want_avg: Vec<f64> = if tot == 0.0 { vec![1.0 / k as f64; k] } else { want_s.iter().map(|x| x / tot).collect() };
                        if !vec_close(&run.avg[pl][at..at + k], &want_avg, 1e-9) {
                            bad.push(json!({"class": "returned", "what": "returned average strategy is not the normalised cumulative strategy", "threads": threads,
                                "player": pl + 1, "infoset": info.infoset, "observed": run.avg[pl][at..at + k].to_vec(), "specified": want_avg}));
                        }
                    }
                    want_bounds[pl] += num(&e["bound"], tt, tavg, par);
                    at += k;
                }
                if !poisoned && !unit_close(run.bounds[pl], want_bounds[pl]) {
                    bad.push(json!({"class": "bound", "what": "reported bound differs", "threads": threads, "player": pl + 1,
                        "observed": run.bounds[pl], "specified": want_bounds[pl]}));
                }
            }
        }
        if poisoned && bad.is_empty() {
            out.line(&json!({"id": id, "status": "poisoned"}));
        } else if bad.is_empty() {
            out.line(&json!({"id": id, "status": "ok", "nontrivial": true, "kinds": kinds, "half": half}));
        } else {
            out.line(&json!({"id": id, "status": "violation", "mismatch": bad}));
        }
    }
}

pub fn gen_rational_params(rng: &mut Rng, budget: u64) -> Value {
    let names: &[&str] = if budget <= 1 { &PRESETS } else { &PRESETS[..3] };
    if rng.chance(0.5) {
        return preset(names[rng.below(names.len() as u64) as usize]);
    }
    let ab = [json!(["ninf"]), json!(["q", -1, 1]), json!(["q", 0, 1]), json!(["q", 1, 1]), json!(["q", 2, 1]), json!(["pinf"])];
    let g = [json!(["q", 0, 1]), json!(["q", 1, 1]), json!(["q", 2, 1])];
    let w = [json!(["ninf"]), json!(["q", 0, 1]), json!(["pinf"])];
    json!({"a": gen_e(rng, &ab), "b": gen_e(rng, &ab), "g": gen_e(rng, &g), "w": gen_e(rng, &w)})
}

fn frontier_game(r: &mut Rng) -> Tree {
    use crate::tree::{Num, PKid};
    let leaf = |r: &mut Rng| Tree::T { pay: Num::I(r.range(-3, 3)) };
    let two = |r: &mut Rng| Tree::P { pl: 2, info: "q".into(), kids: (0..2).map(|j| PKid { a: format!("q{j}"), t: leaf(r) }).collect() };
    Tree::P {
        pl: 1,
        info: "r".into(),
        kids: (0..4)
            .map(|j| PKid {
                a: format!("r{j}"),
                t: Tree::P { pl: 1, info: format!("s{j}"), kids: (0..2).map(|k| PKid { a: format!("s{k}"), t: two(r) }).collect() },
            })
            .collect(),
    }
}

pub fn gen_run(args: &Args) {
    let seed = args.num("seed", 1);
    let n = args.num("n", 100);
    let only_vanilla_full = args.get_or("vanilla-full", "0") == "1";
    let mut out = Out::create(args.get("out"));
    let mut rng = Rng::new(seed ^ 0xc082);
    for id in 1..=n {
        let mut r = rng.fork();
        let mut t = tree::gen_tree(&mut r, &small_cfg(id));
        tree::shorten(&mut t);
        label_chance(&mut t);
        if !only_vanilla_full && id % 13 == 5 {
            // a game whose parallel passes cut a real frontier with two threads (target 6): player one moves twice
            // (4 then 2 actions), then player two in one infoset - the task queue of one pass is non-empty
            t = frontier_game(&mut r);
        }
        let budget = if only_vanilla_full { 1 + id % 3 } else { id % 4 };
        let meth = if only_vanilla_full { "Full" } else { METHODS[((id / 4) % 3) as usize] };
        let par = if only_vanilla_full { preset("vanilla") } else { gen_rational_params(&mut r, budget) };
        let draws: Vec<Value> = (0..budget).map(|_| gen_draws(&mut r, &t)).collect();
        out.line(&json!({"id": id, "tree": t, "method": meth, "par": par, "T": budget, "draws": draws}));
    }
}

pub struct Solved {
    pub avg: [Vec<f64>; 2],
    pub bounds: [f64; 2],
    pub info: [f64; 3],
}

/// solve through the public api with the draws pinned
pub fn solve_pinned(t: &Tree, meth: &str, par: Option<&Value>, budget: u64, max_reg: f64, threads: usize, draws: &[Value], seed: u64) -> Result<Solved, String> {
    let t2 = t.clone();
    let par = par.cloned();
    let draws = draws.to_vec();
    let meth = meth.to_string();
    util::catch(move || {
        let game = tree::build(&unlabelled(&t2)).map_err(|e| format!("from_root: {e:?}"))?;
        let dump = game.verif_dump();
        verif::reset();
        if !draws.is_empty() {
            verif::set_draw_table(Some(draw_table(&draws, &meth, &t2, &dump)));
        }
        verif::set_draw_seed(Some(seed));
        let res = game.solve(method(&meth), budget, max_reg, threads, par.as_ref().and_then(|p| params_opt(p, budget as i64 + threads as i64)));
        // the same call once more on the same Game object (one thread: bitwise the same result - a Game carries no
        // state from one solve to the next)
        if threads == 1 {
            if !draws.is_empty() {
                verif::set_draw_table(Some(draw_table(&draws, &meth, &t2, &dump)));
            }
            verif::set_draw_seed(Some(seed));
            let again = game.solve(method(&meth), budget, max_reg, threads, par.as_ref().and_then(|p| params_opt(p, budget as i64 + threads as i64)));
            if let (Ok((s1, b1)), Ok((s2, b2))) = (&res, &again) {
                let same = s1.verif_dense() == s2.verif_dense()
                    && [PlayerNum::One, PlayerNum::Two].iter().all(|p| b1.player_regret_bound(*p).to_bits() == b2.player_regret_bound(*p).to_bits());
                if !same {
                    verif::reset();
                    return Err("solve called twice on one Game returned two different results".to_string());
                }
            } else if res.is_ok() != again.is_ok() {
                verif::reset();
                return Err("solve called twice on one Game: one call failed, the other did not".to_string());
            }
        }
        verif::reset();
        let (strat, bound) = res.map_err(|e| format!("solve: {e:?}"))?;
        let info = strat.get_info();
        Ok(Solved {
            avg: strat.verif_dense(),
            bounds: [bound.player_regret_bound(PlayerNum::One), bound.player_regret_bound(PlayerNum::Two)],
            info: [info.player_utility(PlayerNum::One), info.player_regret(PlayerNum::One), info.player_regret(PlayerNum::Two)],
        })
    })
    .and_then(|r| r)
}

pub fn replay_run(args: &Args) {
    let cases = util::read_ndjson(args.get("cases"));
    let exps = util::read_ndjson(args.get("exp"));
    let mut out = Out::create(args.get("out"));
    let by_id: HashMap<i64, &Value> = exps.iter().map(|e| (e["id"].as_i64().unwrap(), &e["exp"])).collect();
    let tol = 1e-10;
    for case in cases.iter() {
        let id = case["id"].as_i64().unwrap();
        let Some(exp) = by_id.get(&id) else {
            out.line(&json!({"id": id, "status": "noexp"}));
            continue;
        };
        let status = exp["status"].as_str().unwrap();
        let t: Tree = serde_json::from_value(case["tree"].clone()).unwrap();
        let meth = case["method"].as_str().unwrap();
        let budget = case["T"].as_u64().unwrap();
        let draws: Vec<Value> = case["draws"].as_array().unwrap().clone();
        let game = tree::build(&unlabelled(&t)).expect("valid");
        let dump = game.verif_dump();
        let mut bad = Vec::new();
        let judged = status == "ok" && exp["tie"].as_bool() == Some(false) && exp["eval"]["poisoned"].as_bool() == Some(false);
        for threads in [1usize, 2] {
            let run = match solve_pinned(&t, meth, Some(&case["par"]), budget, 0.0, threads, &draws, 99) {
                Ok(r) => r,
                Err(msg) => {
                    bad.push(json!({"class": "panic", "what": "solve failed or panicked", "threads": threads, "observed": msg}));
                    continue;
                }
            };
            if !judged {
                continue;
            }
            for pl in 0..2 {
                let mut at = 0;
                for info in dump.infos[pl].iter() {
                    let k = info.actions.len();
                    let want = ratv(&exp["avg"][pl][&info.infoset]);
                    if !vec_close(&run.avg[pl][at..at + k], &want, tol) {
                        bad.push(json!({"class": "returned", "what": "returned strategy differs from the documented algorithm", "threads": threads,
                            "player": pl + 1, "infoset": info.infoset, "observed": run.avg[pl][at..at + k].to_vec(), "specified": exp["avg"][pl][&info.infoset]}));
                    }
                    at += k;
                }
                if budget == 0 {
                    if run.bounds[pl] != f64::INFINITY {
                        bad.push(json!({"class": "bound", "what": "bound with no iteration is not infinite", "threads": threads, "observed": run.bounds[pl]}));
                    }
                } else if !util::close(run.bounds[pl], util::rat(&exp["bounds"][pl]), tol) {
                    bad.push(json!({"class": "bound", "what": "returned bound differs from the documented algorithm", "threads": threads,
                        "player": pl + 1, "observed": run.bounds[pl], "specified": exp["bounds"][pl]}));
                }
            }
            let want = [util::rat(&exp["eval"]["util"]), util::rat(&exp["eval"]["r1"]), util::rat(&exp["eval"]["r2"])];
            if !vec_close(&run.info, &want, tol) {
                bad.push(json!({"class": "evaluation", "what": "get_info of the returned profile differs from the exact evaluation", "threads": threads,
                    "observed": run.info.to_vec(), "specified": want.to_vec()}));
            }
        }
        if !bad.is_empty() {
            out.line(&json!({"id": id, "status": "violation", "mismatch": bad}));
        } else if !judged {
            let st = if status != "ok" { status } else if exp["tie"].as_bool() == Some(true) { "tie" } else { "poisoned" };
            out.line(&json!({"id": id, "status": st}));
        } else {
            out.line(&json!({"id": id, "status": "ok", "nontrivial": budget >= 1}));
        }
    }
}

/// a game most of which a sampled pass does NOT reach: an unlabelled lottery at the root, below every outcome an
/// information set of one player followed by one of the other (C08, forgetting family)
fn branchy_game(r: &mut Rng) -> Tree {
    use crate::tree::{CKid, Num, PKid};
    let first = 1 + r.below(2) as u8;
    let outcomes = 2 + r.below(2) as usize;
    Tree::C {
        ci: "none".into(),
        kids: (0..outcomes)
            .map(|j| CKid {
                w: Num::I(r.range(1, 3)),
                t: Tree::P {
                    pl: first,
                    info: format!("x{j}"),
                    kids: (0..3)
                        .map(|a| PKid {
                            a: format!("a{a}"),
                            t: if a == 0 {
                                Tree::T { pay: Num::I(r.range(-3, 3)) }
                            } else {
                                Tree::P {
                                    pl: 3 - first,
                                    info: format!("y{j}"),
                                    kids: (0..3).map(|b| PKid { a: format!("b{b}"), t: Tree::T { pay: Num::I(r.range(-3, 3)) } }).collect(),
                                }
                            },
                        })
                        .collect(),
                },
            })
            .collect(),
    }
}

/// C08, two consecutive iterations from an injected state with exact (rational) discount factors
pub fn gen_step2(args: &Args) {
    let seed = args.num("seed", 1);
    let n = args.num("n", 100);
    let mut out = Out::create(args.get("out"));
    let mut rng = Rng::new(seed ^ 0xc082);
    let regs = [(-2, 1), (-1, 1), (0, 1), (1, 2), (1, 1), (3, 1)];
    let strs = [(0, 1), (1, 2), (1, 1), (2, 1)];
    for id in 1..=n {
        let mut r = rng.fork();
        let mut t = tree::gen_tree(&mut r, &small_cfg(id));
        tree::shorten(&mut t);
        label_chance(&mut t);
        let mut meth = METHODS[(id % 3) as usize];
        let mut it = 1 + (id / 3) % 3;
        let mut par = gen_rational_params(&mut r, 3);
        // the FORGETTING family (one case in four): positive regrets are discounted to exactly zero (alpha = -inf, t >= 2)
        // under a sampled method - an infoset the second iteration does not reach must still be matched again (to the
        // fall-back rule), which only an implementation that re-matches every infoset in every iteration does
        let forgetting = r.chance(0.25);
        if forgetting {
            if r.chance(0.7) {
                t = branchy_game(&mut r);
                label_chance(&mut t);
            }
            meth = METHODS[1 + r.below(2) as usize];
            it = 2 + r.below(2);
            // (beta = -inf as well would leave nothing but zeros: every fall-back decision a tie, not judged)
            let ab = [json!(["q", -1, 1]), json!(["q", 0, 1]), json!(["q", 1, 1]), json!(["pinf"])];
            let g = [json!(["q", 0, 1]), json!(["q", 1, 1]), json!(["q", 2, 1])];
            let w = [json!(["ninf"]), json!(["q", 0, 1]), json!(["pinf"])];
            par = json!({"a": ["ninf"], "b": gen_e(&mut r, &ab), "g": gen_e(&mut r, &g), "w": gen_e(&mut r, &w)});
        }
        let mut state = Vec::new();
        for pl in 1..=2u8 {
            let mut infos = BTreeMap::new();
            t.infos(pl, &mut infos);
            let mut m = serde_json::Map::new();
            for (name, acts) in infos.iter() {
                let k = acts.len();
                let mut rv: Vec<(i64, i64)> = (0..k).map(|_| *r.pick(&regs)).collect();
                if forgetting {
                    // one positive regret, the others distinct and negative: the fall-back rule has no tie to break
                    // (two positive regrets every other time: proportional matching then differs from every fall-back rule)
                    // (a single positive regret makes the strategy pure, the increment of that action in a VISITED infoset
                    // exactly zero and the case fragile: mostly two different positive regrets)
                    let hot = r.below(k as u64) as usize;
                    let hot2 = if r.chance(0.75) { (hot + 1 + r.below(k as u64 - 1) as usize) % k } else { hot };
                    for (j, x) in rv.iter_mut().enumerate() {
                        *x = if j == hot { (1, 1) } else if j == hot2 { (2, 1) } else { (-(1 + j as i64), 1) };
                    }
                }
                let sv: Vec<(i64, i64)> = (0..k).map(|_| *r.pick(&strs)).collect();
                let mut parts = vec![0i64; k];
                for _ in 0..4 {
                    parts[r.below(k as u64) as usize] += 1;
                }
                let cur: Vec<(i64, i64)> = parts.iter().map(|p| (*p, 4)).collect();
                m.insert(name.clone(), json!({"r": rv, "s": sv, "cur": cur}));
            }
            state.push(Value::Object(m));
        }
        let draws = vec![gen_draws(&mut r, &t), gen_draws(&mut r, &t)];
        out.line(&json!({"id": id, "tree": t, "method": meth, "par": par, "t": it, "state": state, "draws": draws}));
    }
}

pub fn replay_step2(args: &Args) {
    let cases = util::read_ndjson(args.get("cases"));
    let exps = util::read_ndjson(args.get("exp"));
    let mut out = Out::create(args.get("out"));
    let by_id: HashMap<i64, &Value> = exps.iter().map(|e| (e["id"].as_i64().unwrap(), &e["exp"])).collect();
    let tol = 1e-10;
    for case in cases.iter() {
        let id = case["id"].as_i64().unwrap();
        let Some(exp) = by_id.get(&id) else {
            out.line(&json!({"id": id, "status": "noexp"}));
            continue;
        };
        let status = exp["status"].as_str().unwrap();
        if status != "ok" || exp["tie"].as_bool() != Some(false) {
            out.line(&json!({"id": id, "status": if status != "ok" { status } else { "tie" }}));
            continue;
        }
        let t: Tree = serde_json::from_value(case["tree"].clone()).unwrap();
        let mut bad = Vec::new();
        for threads in [1usize, 2] {
            let (t2, case2) = (t.clone(), case.clone());
            let res = util::catch(move || {
                let game = tree::build(&unlabelled(&t2)).map_err(|e| format!("from_root: {e:?}"))?;
                let dump = game.verif_dump();
                let meth = case2["method"].as_str().unwrap();
                let it = case2["t"].as_u64().unwrap();
                verif::reset();
                verif::set_inject(Some(state_of(&case2["state"], &dump)));
                verif::set_first_it(it);
                verif::set_draw_table(Some(draw_table(case2["draws"].as_array().unwrap(), meth, &t2, &dump)));
                verif::set_draw_seed(Some(4242));
                let res = game.solve(method(meth), it + 1, 0.0, threads, Some(params(&case2["par"])));
                let ext = verif::take_extract();
                verif::reset();
                let (_, bound) = res.map_err(|e| format!("solve: {e:?}"))?;
                Ok::<_, String>((dump, ext.ok_or("no state extracted")?, [bound.player_regret_bound(PlayerNum::One), bound.player_regret_bound(PlayerNum::Two)]))
            })
            .and_then(|r| r);
            match res {
                Err(msg) => bad.push(json!({"class": "panic", "what": "solve failed or panicked", "threads": threads, "observed": msg})),
                Ok((dump, state, bounds)) => {
                    for pl in 0..2 {
                        for (ix, info) in dump.infos[pl].iter().enumerate() {
                            let e = &exp["state"][pl][&info.infoset];
                            let got = &state[pl][ix];
                            for (field, have, want) in [("regret", &got.cum_regret, ratv(&e["r"])), ("average", &got.cum_strat, ratv(&e["s"])), ("strategy", &got.strat, ratv(&e["cur"]))] {
                                if !vec_close(have, &want, tol) {
                                    bad.push(json!({"class": format!("two-step:{field}"), "what": "state after two consecutive iterations differs from the documented algorithm",
                                        "threads": threads, "player": pl + 1, "infoset": info.infoset, "observed": have, "specified": want}));
                                }
                            }
                        }
                        if !util::close(bounds[pl], util::rat(&exp["bounds"][pl]), tol) {
                            bad.push(json!({"class": "two-step:bound", "what": "bound after two consecutive iterations differs", "threads": threads,
                                "player": pl + 1, "observed": bounds[pl], "specified": exp["bounds"][pl]}));
                        }
                    }
                }
            }
        }
        if bad.is_empty() {
            out.line(&json!({"id": id, "status": "ok", "nontrivial": true}));
        } else {
            bad.truncate(6);
            out.line(&json!({"id": id, "status": "violation", "mismatch": bad}));
        }
    }
}
