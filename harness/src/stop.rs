//! C09: record thresholded runs for Trace_Stop.tla
use crate::cfr::{self, verif, PlayerNum, METHODS, PRESETS};
use crate::rng::Rng;
use crate::tree::{self, GenCfg, Tree};
use crate::util::{self, Args, Out};
use crate::zoo;
use serde_json::{json, Value};

fn digest(dense: &[Vec<f64>; 2]) -> Value {
    let mut h: u64 = 0xcbf29ce484222325;
    for side in dense.iter() {
        for x in side.iter() {
            h ^= x.to_bits();
            h = h.wrapping_mul(0x100000001b3);
            h ^= h >> 29;
        }
        h = h.wrapping_mul(0x9e3779b97f4a7c15);
    }
    json!([(h >> 42) as i64, ((h >> 21) & 0x1fffff) as i64, (h & 0x1fffff) as i64])
}

struct Res {
    iterbounds: Vec<[f64; 2]>,
    ret: [f64; 2],
    dense: [Vec<f64>; 2],
}

/// the same run on a thread of its own under a watchdog: a budget of u64::MAX ("no limit") ends only when the threshold
/// is crossed, and a defective stop rule must not hang the recorder
fn run_watched(t: &Tree, meth: &str, preset: &str, k: usize, budget: u64, thr: f64, seed: u64, secs: u64) -> Option<Result<Res, String>> {
    let (tx, rx) = std::sync::mpsc::channel();
    let (t2, meth, preset) = (t.clone(), meth.to_string(), preset.to_string());
    std::thread::spawn(move || {
        let _ = tx.send(run(&t2, &meth, &preset, k, budget, thr, seed));
    });
    rx.recv_timeout(std::time::Duration::from_secs(secs)).ok()
}

fn run(t: &Tree, meth: &str, preset: &str, k: usize, budget: u64, thr: f64, seed: u64) -> Result<Res, String> {
    let t2 = t.clone();
    let (meth, preset) = (meth.to_string(), preset.to_string());
    util::catch(move || {
        let game = tree::build(&t2).map_err(|e| format!("{e:?}"))?;
        verif::reset();
        verif::set_draw_seed(Some(seed));
        verif::set_record(true, false);
        // "default" = no parameters given (the documented default) - with and without a threshold alike
        let par = if preset == "default" { None } else { Some(cfr::params(&cfr::preset(&preset))) };
        let res = game.solve(cfr::method(&meth), budget, thr, k, par);
        let log = verif::take_log();
        verif::reset();
        let (strat, bound) = res.map_err(|e| format!("{e:?}"))?;
        Ok(Res {
            iterbounds: log
                .iter()
                .filter_map(|e| if let verif::Event::IterEnd(_, b) = e { Some(*b) } else { None })
                .collect(),
            ret: [bound.player_regret_bound(PlayerNum::One), bound.player_regret_bound(PlayerNum::Two)],
            dense: strat.verif_dense(),
        })
    })
    .and_then(|r| r)
}

fn toks(b: &[f64; 2]) -> Value {
    json!([util::token(b[0]), util::token(b[1])])
}

fn next_up(x: f64) -> f64 {
    if x == 0.0 {
        f64::from_bits(1)
    } else {
        f64::from_bits(x.to_bits() + 1)
    }
}

fn next_down(x: f64) -> f64 {
    if x == 0.0 {
        -f64::from_bits(1)
    } else {
        f64::from_bits(x.to_bits() - 1)
    }
}

pub fn record(args: &Args) {
    let seed = args.num("seed", 1);
    let n = args.num("n", 10);
    let thorough = args.get_or("thorough", "0") == "1";
    let mut out = Out::create(args.get("out"));
    let mut games = zoo::all();
    let mut rng = Rng::new(seed ^ 0xc09);
    for id in 0..n {
        let mut r = rng.fork();
        let cfg = GenCfg { max_depth: 3 + (id % 3) as usize, max_nodes: 40, ..GenCfg::default() };
        let mut t = tree::gen_tree(&mut r, &cfg);
        tree::shorten(&mut t);
        games.push((format!("rand{id}"), t));
    }
    let budgets: &[u64] = if thorough { &[1, 2, 5, 20, 100] } else { &[2, 5, 20] };
    let mut runs = 0;
    let mut early = 0;
    let mut failed = Vec::new();
    let mut hung = false;
    for (gi, (name, t)) in games.iter().enumerate() {
        if hung {
            break;
        }
        let meth = METHODS[gi % 3];
        let preset = ["vanilla", "lcfr", "cfr_plus", "dcfr", "dcfr_prune", "default"][(gi / 3) % 6];
        let budget = budgets[gi % budgets.len()];
        let sd = seed.wrapping_mul(7919).wrapping_add(gi as u64);
        // the unthresholded prefixes, one thread
        let mut bounds = Vec::new();
        let mut digests = Vec::new();
        let mut totals = Vec::new();
        let mut ok = true;
        for tt in 1..=budget {
            match run(t, meth, preset, 1, tt, 0.0, sd) {
                Ok(r) => {
                    bounds.push(toks(&r.ret));
                    digests.push(digest(&r.dense));
                    totals.push(f64::max(r.ret[0], r.ret[1]));
                }
                Err(msg) => {
                    failed.push(json!({"game": name, "what": msg}));
                    ok = false;
                    break;
                }
            }
        }
        if !ok {
            continue;
        }
        out.line(&json!({"e": "series", "game": name, "method": meth, "preset": preset, "N": budget, "bounds": bounds, "digests": digests}));
        let mut thresholds = vec![0.0, -1.0, f64::NAN, f64::INFINITY, f64::NEG_INFINITY];
        for m in totals.iter() {
            thresholds.extend([next_down(*m), *m, next_up(*m)]);
        }
        let ks: &[usize] = if thorough { &[1, 2, 4] } else { &[1, 4] };
        for &k in ks {
            let list: Vec<f64> = if k == 1 {
                thresholds.clone()
            } else {
                // several threads: the summation order may move a bound by an ulp, so the run is judged on ITS OWN
                // per-iteration bounds only (Trace_Stop, RunOK without the prefix part).  Thresholds an ulp around the
                // one-thread bounds are then as good as any others - and they are where a tolerance in the comparison
                // of the several-thread loops shows
                thresholds.iter().cloned().chain(totals.iter().flat_map(|m| [m * (1.0 - 1e-6), m * (1.0 + 1e-6)])).collect()
            };
            for thr in list {
                match run(t, meth, preset, k, budget, thr, sd) {
                    Ok(r) => {
                        runs += 1;
                        if (r.iterbounds.len() as u64) < budget {
                            early += 1;
                        }
                        out.line(&json!({"e": "run", "game": name, "k": k, "N": budget, "r": util::token(thr),
                            "iterbounds": r.iterbounds.iter().map(toks).collect::<Vec<_>>(), "ret": toks(&r.ret), "digest": digest(&r.dense)}));
                    }
                    Err(msg) => failed.push(json!({"game": name, "k": k, "what": msg})),
                }
            }
            // the documented "no limit": budget u64::MAX with a threshold the series is known to cross.  One thread
            // (bitwise deterministic): just above every total bound; several threads: above twice the largest bound
            // (crossed in the first iteration whatever the summation order) and +inf
            let biggest = totals.iter().cloned().fold(0.0, f64::max);
            let list: Vec<f64> = if k == 1 {
                totals.iter().map(|m| next_up(*m)).chain([f64::INFINITY]).collect()
            } else {
                vec![2.0 * biggest + 1.0, f64::INFINITY]
            };
            for thr in list {
                if !(biggest.is_finite()) {
                    break;
                }
                match run_watched(t, meth, preset, k, u64::MAX, thr, sd, 120) {
                    Some(Ok(r)) => {
                        runs += 1;
                        early += 1;
                        out.line(&json!({"e": "unlimited", "game": name, "k": k, "N": budget, "r": util::token(thr),
                            "iterbounds": r.iterbounds.iter().map(toks).collect::<Vec<_>>(), "ret": toks(&r.ret), "digest": digest(&r.dense)}));
                    }
                    Some(Err(msg)) => failed.push(json!({"game": name, "k": k, "budget": "u64::MAX", "r": thr.to_string(), "what": msg})),
                    None => {
                        failed.push(json!({"game": name, "k": k, "budget": "u64::MAX", "r": thr.to_string(),
                            "what": "no return within 120 s although the unthresholded series crosses the threshold"}));
                        hung = true;
                        break;
                    }
                }
            }
            if hung {
                break;
            }
        }
    }
    let _ = hung;
    println!("{}", json!({"runs": runs, "stopped_early": early, "failed": failed, "games": games.len()}));
}
