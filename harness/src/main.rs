//! Conformance harness binding spec/*.tla to the implementation in /repo.
//!
//! `harness gen <what>`    writes seeded instances (cases) for TLC to evaluate
//! `harness replay <what>` replays behaviours emitted by TLC into the real code and compares
//! `harness record <what>` drives the real code and records traces for TLC to validate
mod build;
mod cfr;
mod cli;
mod clirun;
mod edit;
mod lattice;
mod monitor;
mod zoo;
mod eval;
mod jdoc;
mod named;
mod par;
mod rng;
mod sample;
mod stop;
mod strategy;
mod tree;
mod util;
mod xform;

use util::Args;

fn main() {
    // panics of the code under test are data: keep the default hook quiet
    std::panic::set_hook(Box::new(|info| {
        if util::QUIET.load(std::sync::atomic::Ordering::SeqCst) == 0 {
            eprintln!("harness panic: {info}");
        }
    }));
    let raw: Vec<String> = std::env::args().skip(1).collect();
    let args = Args::parse(&raw);
    let cmd: Vec<&str> = args.pos.iter().map(|s| s.as_str()).collect();
    match cmd.as_slice() {
        ["gen", "eval"] => eval::gen(&args),
        ["replay", "eval"] => eval::replay(&args),
        ["record", "eval"] => eval::record(&args),
        ["replay", "history"] => eval::replay_history(&args),
        ["replay", "trunc"] => strategy::replay_trunc(&args),
        ["replay", "dist"] => strategy::replay_dist(&args),
        ["replay", "import"] => strategy::replay_import(&args),
        ["record", "named"] => named::record(&args),
        ["replay", "build"] => build::replay(&args),
        ["gen", "edit"] => edit::gen(&args),
        ["gen", "step"] => cfr::gen_step(&args),
        ["replay", "step"] => cfr::replay_step(&args),
        ["gen", "step2"] => cfr::gen_step2(&args),
        ["replay", "step2"] => cfr::replay_step2(&args),
        ["gen", "run"] => cfr::gen_run(&args),
        ["replay", "run"] => cfr::replay_run(&args),
        ["record", "solve"] => monitor::record(&args),
        ["record", "stop"] => stop::record(&args),
        ["record", "par"] => par::record(&args),
        ["replay", "lattice"] => lattice::replay(&args),
        ["child", "lattice"] => lattice::child(&args),
        ["gen", "xform"] => xform::gen(&args),
        ["record", "cli"] => clirun::record(&args),
        ["replay", "cli"] => clirun::replay(&args),
        ["replay", "sampler"] => sample::replay_sampler(&args),
        ["record", "sample"] => sample::record(&args),
        ["replay", "xform"] => xform::replay(&args),
        other => {
            eprintln!("unknown command {other:?}");
            std::process::exit(2);
        }
    }
}
