fn main() { println!("hello"); }
