//! small helpers: argument parsing, float comparison, ndjson i/o
use serde_json::Value;
use std::collections::HashMap;
use std::fs::File;
use std::io::{BufRead, BufReader, BufWriter, Write};

pub struct Args {
    pub pos: Vec<String>,
    pub opt: HashMap<String, String>,
}

impl Args {
    pub fn parse(raw: &[String]) -> Args {
        let mut pos = Vec::new();
        let mut opt = HashMap::new();
        let mut i = 0;
        while i < raw.len() {
            if let Some(key) = raw[i].strip_prefix("--") {
                let val = raw.get(i + 1).cloned().unwrap_or_default();
                opt.insert(key.to_string(), val);
                i += 2;
            } else {
                pos.push(raw[i].clone());
                i += 1;
            }
        }
        Args { pos, opt }
    }

    pub fn get(&self, key: &str) -> &str {
        self.opt
            .get(key)
            .unwrap_or_else(|| panic!("missing --{key}"))
    }

    pub fn get_or<'a>(&'a self, key: &str, def: &'a str) -> &'a str {
        self.opt.get(key).map(|s| s.as_str()).unwrap_or(def)
    }

    pub fn num(&self, key: &str, def: u64) -> u64 {
        self.opt
            .get(key)
            .map(|s| s.parse().unwrap())
            .unwrap_or(def)
    }
}

pub fn read_ndjson(path: &str) -> Vec<Value> {
    let file = File::open(path).unwrap_or_else(|e| panic!("open {path}: {e}"));
    BufReader::new(file)
        .lines()
        .map(|l| l.unwrap())
        .filter(|l| !l.trim().is_empty())
        .map(|l| serde_json::from_str(&l).unwrap_or_else(|e| panic!("bad json line {l}: {e}")))
        .collect()
}

/// the lines of an ndjson file one at a time (the thorough universes have millions of cases)
pub fn stream_ndjson(path: &str) -> impl Iterator<Item = Value> {
    let file = File::open(path).unwrap_or_else(|e| panic!("open {path}: {e}"));
    BufReader::new(file)
        .lines()
        .map(|l| l.unwrap())
        .filter(|l| !l.trim().is_empty())
        .map(|l| serde_json::from_str(&l).unwrap_or_else(|e| panic!("bad json line {l}: {e}")))
}

pub struct Out(BufWriter<File>);

impl Out {
    pub fn create(path: &str) -> Out {
        Out(BufWriter::new(
            File::create(path).unwrap_or_else(|e| panic!("create {path}: {e}")),
        ))
    }

    pub fn line(&mut self, v: &Value) {
        serde_json::to_writer(&mut self.0, v).unwrap();
        self.0.write_all(b"\n").unwrap();
    }
}

/// value of a rational given as a json pair [n, d]
pub fn rat(v: &Value) -> f64 {
    let n = v[0].as_i64().unwrap() as f64;
    let d = v[1].as_i64().unwrap() as f64;
    n / d
}

pub fn is_poison(v: &Value) -> bool {
    v[1].as_i64() == Some(0)
}

/// |x - want| <= tol * max(1, |want|)
pub fn close(x: f64, want: f64, tol: f64) -> bool {
    if x.is_nan() || want.is_nan() {
        return false;
    }
    if x == want {
        return true;
    }
    (x - want).abs() <= tol * f64::max(1.0, want.abs())
}

/// total-order key of a float split into three 22 bit limbs (order tokens of DESIGN 3.1)
pub fn token(x: f64) -> Value {
    if x.is_nan() {
        return serde_json::json!(["nan"]);
    }
    let bits = x.to_bits();
    let key = if bits >> 63 == 1 { !bits } else { bits | (1 << 63) };
    // -0.0 and +0.0 compare equal as floats: map both to the key of +0.0
    let key = if x == 0.0 { 1u64 << 63 } else { key };
    serde_json::json!([
        "tok",
        (key >> 44) as i64,
        ((key >> 22) & 0x3fffff) as i64,
        (key & 0x3fffff) as i64
    ])
}

/// best rational approximation with denominator <= maxd by continued fractions; None unless
/// it reproduces x to 1e-12 relative and fits 31 bits
pub fn reconstruct(x: f64, maxd: i64) -> Option<(i64, i64)> {
    if !x.is_finite() {
        return None;
    }
    let neg = x < 0.0;
    let ax = x.abs();
    let (mut p0, mut q0, mut p1, mut q1) = (0i64, 1i64, 1i64, 0i64);
    let mut r = ax;
    for _ in 0..64 {
        let a = r.floor();
        if a > 2e9 {
            break;
        }
        let ai = a as i64;
        let p2 = ai.checked_mul(p1)?.checked_add(p0)?;
        let q2 = ai.checked_mul(q1)?.checked_add(q0)?;
        if q2 > maxd || p2 > (1 << 31) - 1 {
            break;
        }
        p0 = p1;
        q0 = q1;
        p1 = p2;
        q1 = q2;
        let val = p1 as f64 / q1 as f64;
        if (val - ax).abs() <= 1e-12 * f64::max(1.0, ax) {
            return Some((if neg { -p1 } else { p1 }, q1));
        }
        let frac = r - a;
        if frac < 1e-15 {
            break;
        }
        r = 1.0 / frac;
    }
    None
}

/// floor(x * 1e6) and ceil(x * 1e6), clamped to the 31 bit range
pub fn micro_floor(x: f64) -> i64 {
    ((x * 1e6).floor()).clamp(-2.0e9, 2.0e9) as i64
}

pub fn micro_ceil(x: f64) -> i64 {
    ((x * 1e6).ceil()).clamp(-2.0e9, 2.0e9) as i64
}

/// number of active `catch` scopes: panics inside them are data about the code under test and
/// are not printed; panics outside are harness bugs and are
pub static QUIET: std::sync::atomic::AtomicUsize = std::sync::atomic::AtomicUsize::new(0);

pub fn catch<T>(f: impl FnOnce() -> T + std::panic::UnwindSafe) -> Result<T, String> {
    QUIET.fetch_add(1, std::sync::atomic::Ordering::SeqCst);
    let res = std::panic::catch_unwind(f);
    QUIET.fetch_sub(1, std::sync::atomic::Ordering::SeqCst);
    res.map_err(|e| {
        if let Some(s) = e.downcast_ref::<&str>() {
            s.to_string()
        } else if let Some(s) = e.downcast_ref::<String>() {
            s.clone()
        } else {
            "panic".to_string()
        }
    })
}
