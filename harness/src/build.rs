//! C11 / C12: replay raw trees into Game::from_root and compare verdict and compact game with
//! Contract.tla / Build.tla
use crate::tree::{self, Num, Tree};
use crate::util::{self, Args, Out};
use cfr::verif::{Dump, DumpNode};
use cfr::{PlayerNum, SolveMethod};
use serde_json::{json, Value};
use std::collections::HashMap;

/// map the number codes of Contract.tla to the floats they stand for
pub fn decode(tree: &mut Tree) {
    fn num(n: &mut Num) {
        if let Num::I(i) = n {
            *n = match *i {
                999001 => Num::S("nan".into()),
                999002 => Num::S("inf".into()),
                999003 => Num::S("-inf".into()),
                _ => return,
            }
        }
    }
    match tree {
        Tree::T { pay } => num(pay),
        Tree::C { kids, .. } => kids.iter_mut().for_each(|k| {
            num(&mut k.w);
            decode(&mut k.t)
        }),
        Tree::P { kids, .. } => kids.iter_mut().for_each(|k| decode(&mut k.t)),
    }
}

/// canonical, renumbering invariant form of the compact game of the implementation
pub fn canon_dump(d: &Dump<String, String>) -> Value {
    fn rec(d: &Dump<String, String>, id: usize, classes: &mut HashMap<usize, usize>) -> Value {
        match &d.nodes[id] {
            DumpNode::Terminal(p) => json!({"k": "T", "pay": p}),
            DumpNode::Chance(ci, kids) => {
                let n = classes.len();
                let class = *classes.entry(*ci).or_insert(n);
                let kids: Vec<Value> = kids.iter().map(|k| rec(d, *k, classes)).collect();
                json!({"k": "C", "class": class, "probs": d.chance[*ci], "kids": kids})
            }
            DumpNode::Player(pl, info, kids) => {
                let i = &d.infos[*pl][*info];
                let kids: Vec<Value> = kids.iter().map(|k| rec(d, *k, classes)).collect();
                json!({"k": "P", "pl": pl + 1, "info": i.infoset, "acts": i.actions,
                    "prev": i.prev_infoset.map(|p| d.infos[*pl][p].infoset.clone()), "kids": kids})
            }
        }
    }
    let mut singles: Vec<Vec<(String, String)>> = d.singles.iter().map(|s| s.to_vec()).collect();
    singles.iter_mut().for_each(|s| s.sort());
    json!({"root": rec(d, 0, &mut HashMap::new()), "singles": singles})
}

/// the same canonical form from the compact game specified by Build.tla; probabilities stay rationals
fn canon_model(b: &Value) -> Value {
    fn rec(b: &Value, n: &Value, classes: &mut HashMap<i64, usize>) -> Value {
        match n["k"].as_str().unwrap() {
            "T" => json!({"k": "T", "pay": n["pay"]}),
            "C" => {
                let ci = n["ci"].as_i64().unwrap();
                let m = classes.len();
                let class = *classes.entry(ci).or_insert(m);
                let kids: Vec<Value> = n["kids"].as_array().unwrap().iter().map(|k| rec(b, k, classes)).collect();
                json!({"k": "C", "class": class, "probs": b["chance"][ci as usize - 1], "kids": kids})
            }
            _ => {
                let pl = n["pl"].as_i64().unwrap() as usize;
                let ix = n["info"].as_i64().unwrap() as usize;
                let i = &b["multi"][pl - 1][ix - 1];
                let prev = i["prev"].as_i64().unwrap() as usize;
                let kids: Vec<Value> = n["kids"].as_array().unwrap().iter().map(|k| rec(b, k, classes)).collect();
                json!({"k": "P", "pl": pl, "info": i["name"], "acts": i["acts"],
                    "prev": if prev == 0 { Value::Null } else { b["multi"][pl - 1][prev - 1]["name"].clone() }, "kids": kids})
            }
        }
    }
    let mut singles: Vec<Vec<(String, String)>> = (0..2)
        .map(|p| {
            b["single"][p]
                .as_array()
                .unwrap()
                .iter()
                .map(|x| (x[0].as_str().unwrap().to_string(), x[1].as_str().unwrap().to_string()))
                .collect()
        })
        .collect();
    singles.iter_mut().for_each(|s| s.sort());
    json!({"root": rec(b, &b["root"], &mut HashMap::new()), "singles": singles})
}

/// structural equality where the model carries rationals [n, d] and the dump carries floats
fn same(model: &Value, dump: &Value) -> bool {
    match (model, dump) {
        (Value::Object(a), Value::Object(b)) => {
            a.len() == b.len()
                && a.iter().all(|(k, v)| match b.get(k) {
                    None => false,
                    Some(w) => {
                        if k == "probs" {
                            let (x, y) = (v.as_array().unwrap(), w.as_array().unwrap());
                            // (a non-finite probability is serialised as null: never equal)
                            x.len() == y.len() && x.iter().zip(y.iter()).all(|(r, f)| f.as_f64().map_or(false, |p| util::close(p, util::rat(r), 1e-14)))
                        } else if k == "pay" {
                            v.as_i64().map(|i| i as f64) == w.as_f64() || (w.as_f64().is_none() && v.as_i64().unwrap_or(0).abs() > 999000)
                        } else {
                            same(v, w)
                        }
                    }
                })
        }
        (Value::Array(a), Value::Array(b)) => a.len() == b.len() && a.iter().zip(b.iter()).all(|(x, y)| same(x, y)),
        (a, b) => a == b,
    }
}

/// after acceptance: evaluation and solving must be defined
fn exercise(tree: &Tree, game: &tree::G) -> Result<(), String> {
    let mut rng = crate::rng::Rng::new(7);
    for style in [0, 2] {
        let prof = tree::gen_profile(&mut rng, tree, style, false);
        let strat = game.from_named(tree::named(tree, &prof)).map_err(|e| format!("from_named on accepted game: {e:?}"))?;
        let info = strat.get_info();
        for x in [info.player_utility(PlayerNum::One), info.player_regret(PlayerNum::One), info.player_regret(PlayerNum::Two)] {
            if !x.is_finite() {
                return Err(format!("get_info not finite: {x}"));
            }
        }
        let back = game.from_named(strat.as_named()).map_err(|e| format!("round trip of named view: {e:?}"))?;
        if back.verif_dense() != strat.verif_dense() && style == 0 {
            return Err("round trip changed a pure profile".into());
        }
    }
    for method in [SolveMethod::Full, SolveMethod::Sampled, SolveMethod::External] {
        let (strat, bound) = game.solve(method, 3, 0.0, 1, None).map_err(|e| format!("solve: {e:?}"))?;
        if !bound.regret_bound().is_finite() {
            return Err(format!("{method:?} bound not finite"));
        }
        let info = strat.get_info();
        if !info.regret().is_finite() {
            return Err(format!("{method:?} regret of solution not finite"));
        }
    }
    Ok(())
}

fn integer_weights(t: &Tree) -> bool {
    match t {
        Tree::T { .. } => true,
        Tree::C { kids, .. } => kids.iter().all(|k| matches!(k.w, crate::tree::Num::I(_)) && integer_weights(&k.t)),
        Tree::P { kids, .. } => kids.iter().all(|k| integer_weights(&k.t)),
    }
}

/// the first (or last) weight of every chance node with at least two outcomes multiplied by 2^70
fn stretch(t: &Tree, first: bool) -> Tree {
    use crate::tree::{CKid, Num, PKid};
    match t {
        Tree::T { .. } => t.clone(),
        Tree::C { ci, kids } => Tree::C {
            ci: ci.clone(),
            kids: kids
                .iter()
                .enumerate()
                .map(|(i, k)| {
                    let hit = kids.len() >= 2 && (if first { i == 0 } else { i + 1 == kids.len() });
                    CKid { w: if hit { Num::F(k.w.f() * 2f64.powi(70)) } else { k.w.clone() }, t: stretch(&k.t, first) }
                })
                .collect(),
        },
        Tree::P { pl, info, kids } => Tree::P { pl: *pl, info: info.clone(), kids: kids.iter().map(|k| PKid { a: k.a.clone(), t: stretch(&k.t, first) }).collect() },
    }
}

/// pad the infoset of the first several-action decision node (at every node of that infoset with the same action list)
/// with 65 535 terminal actions after the first action; None when the tree has no such node or the infoset is large
fn widen(tree: &Tree) -> Option<Tree> {
    use crate::tree::{Num, PKid};
    fn first(t: &Tree) -> Option<(u8, String, usize)> {
        match t {
            Tree::T { .. } => None,
            Tree::C { kids, .. } => kids.iter().find_map(|k| first(&k.t)),
            Tree::P { pl, info, kids } => {
                if kids.len() >= 2 {
                    Some((*pl, info.clone(), kids.len()))
                } else {
                    kids.iter().find_map(|k| first(&k.t))
                }
            }
        }
    }
    fn count(t: &Tree, pl0: u8, info0: &str) -> usize {
        match t {
            Tree::T { .. } => 0,
            Tree::C { kids, .. } => kids.iter().map(|k| count(&k.t, pl0, info0)).sum(),
            Tree::P { pl, info, kids } => (if *pl == pl0 && info == info0 { 1 } else { 0 }) + kids.iter().map(|k| count(&k.t, pl0, info0)).sum::<usize>(),
        }
    }
    fn pad(t: &Tree, pl0: u8, info0: &str, len0: usize) -> Tree {
        match t {
            Tree::T { .. } => t.clone(),
            Tree::C { ci, kids } => Tree::C { ci: ci.clone(), kids: kids.iter().map(|k| crate::tree::CKid { w: k.w.clone(), t: pad(&k.t, pl0, info0, len0) }).collect() },
            Tree::P { pl, info, kids } => {
                let mut ks: Vec<PKid> = kids.iter().map(|k| PKid { a: k.a.clone(), t: pad(&k.t, pl0, info0, len0) }).collect();
                if *pl == pl0 && info == info0 && kids.len() == len0 {
                    let rest = ks.split_off(1);
                    ks.extend((0..65535).map(|i| PKid { a: format!("pad{i}"), t: Tree::T { pay: Num::I(0) } }));
                    ks.extend(rest);
                }
                Tree::P { pl: *pl, info: info.clone(), kids: ks }
            }
        }
    }
    let (pl0, info0, len0) = first(tree)?;
    if count(tree, pl0, &info0) > 3 {
        return None;
    }
    Some(pad(tree, pl0, &info0, len0))
}

pub fn replay(args: &Args) {
    let cases = util::read_ndjson(args.get("exp"));
    let mut out = Out::create(args.get("out"));
    let light = args.get_or("light", "0") == "1";
    for (n, row) in cases.iter().enumerate() {
        let case = &row["exp"];
        let mut tree: Tree = serde_json::from_value(case["tree"].clone()).unwrap();
        decode(&mut tree);
        let rules: Vec<String> = case["rules"].as_array().unwrap().iter().map(|r| r.as_str().unwrap().to_string()).collect();
        let kinds: Vec<&str> = case["kinds"].as_array().unwrap().iter().map(|r| r.as_str().unwrap()).collect();
        let model_err = case["build"]["err"].as_str().unwrap();
        let t2 = tree.clone();
        let res = util::catch(move || match tree::build(&t2) {
            Err(e) => (Err(format!("{e:?}")), None),
            Ok(game) => {
                let dump = canon_dump(&game.verif_dump());
                let count = game.num_infosets();
                let ex = if light { Ok(()) } else { util::catch(std::panic::AssertUnwindSafe(|| exercise(&t2, &game))).unwrap_or_else(|m| Err(format!("panic: {m}"))) };
                (Ok((dump, count)), Some(ex))
            }
        });
        let mut bad = Vec::new();
        // valid trees also with every chance weight scaled by 2^-1040 (subnormal) or 2^1000: same verdict, same compact
        // game, evaluation and solving defined
        if rules.is_empty() && model_err == "none" && n % 3 == 1 {
            let ts = tree.scale_weights(if n % 2 == 0 { -1040 } else { 1000 });
            let ts2 = ts.clone();
            let r2 = util::catch(move || match tree::build(&ts2) {
                Err(e) => Err(format!("{e:?}")),
                Ok(game) => {
                    let dump = canon_dump(&game.verif_dump());
                    let ex = if light { Ok(()) } else { util::catch(std::panic::AssertUnwindSafe(|| exercise(&ts2, &game))).unwrap_or_else(|m| Err(format!("panic: {m}"))) };
                    Ok((dump, ex))
                }
            });
            match r2 {
                Err(msg) => bad.push(json!({"class": "scaled-weights", "what": "from_root panicked on a valid tree with scaled chance weights", "observed": msg})),
                Ok(Err(kind)) => bad.push(json!({"class": "scaled-weights", "what": "rejected a valid tree whose chance weights were scaled by a power of two", "observed": kind})),
                Ok(Ok((dump, ex))) => {
                    if !same(&canon_model(&case["build"]), &dump) {
                        bad.push(json!({"class": "scaled-weights", "what": "compact game of a tree with scaled chance weights differs from the specified one", "observed": dump}));
                    }
                    if let Err(msg) = ex {
                        bad.push(json!({"class": "scaled-weights", "what": "evaluation or solving undefined on an accepted tree with scaled chance weights", "observed": msg}));
                    }
                }
            }
        }
        let mut dev = false;
        let mut rules_sorted = rules.clone();
        rules_sorted.sort();
        match res {
            Err(msg) => bad.push(json!({"class": "panic", "what": "from_root panicked", "observed": msg})),
            Ok((Ok((dump, count)), ex)) => {
                if model_err == "none" && rules.is_empty() {
                    let want = case["build"]["multi"][0].as_array().map_or(0, |a| a.len()) + case["build"]["multi"][1].as_array().map_or(0, |a| a.len());
                    if count != want {
                        bad.push(json!({"class": "count", "what": "num_infosets() is not the number of multi-action information sets of the two players",
                            "observed": count, "specified": want}));
                    }
                }
                if !rules.is_empty() {
                    bad.push(json!({"class": format!("accepts:{}", rules_sorted.join("+")), "what": "accepted a tree outside the documented class", "rules": rules}));
                } else {
                    if model_err == "none" && !same(&canon_model(&case["build"]), &dump) {
                        bad.push(json!({"class": "compact", "what": "compact game differs from the specified one",
                            "observed": dump, "specified": canon_model(&case["build"])}));
                    }
                    if let Some(Err(msg)) = ex {
                        bad.push(json!({"class": "undefined", "what": "evaluation or solving undefined on an accepted tree", "observed": msg}));
                    }
                }
            }
            Ok((Err(kind), _)) => {
                if rules.is_empty() {
                    bad.push(json!({"class": "rejects", "what": "rejected a tree of the documented class", "observed": kind}));
                } else if !kinds.contains(&kind.as_str()) {
                    bad.push(json!({"class": "kind", "what": "error names a rule the tree does not violate", "observed": kind, "rules": rules}));
                } else if kind != model_err {
                    dev = true;
                }
            }
        }
        // WIDTH: the same tree with 65 535 fresh terminal actions inserted after the first action at every node of one
        // several-action infoset (no rule of the contract mentions how many actions there are, so the verdict must be the
        // one TLC computed for the tree as it was; the second action now has index 65 536)
        if n % 331 == 7 || rules.iter().any(|r| r == "R7") && n % 17 == 0 {
            if let Some(wide) = widen(&tree) {
                let res = util::catch(move || tree::build(&wide).map(|_| ()).map_err(|e| format!("{e:?}")));
                match res {
                    Err(msg) => bad.push(json!({"class": "wide", "what": "from_root panicked on the tree with a 65 537-action infoset", "observed": msg})),
                    Ok(Ok(())) => {
                        if !rules.is_empty() {
                            bad.push(json!({"class": format!("wide:accepts:{}", rules_sorted.join("+")), "what": "accepted a tree outside the documented class once an infoset was padded to 65 537 actions", "rules": rules}));
                        }
                    }
                    Ok(Err(kind)) => {
                        if rules.is_empty() {
                            bad.push(json!({"class": "wide:rejects", "what": "rejected a tree of the documented class once an infoset was padded to 65 537 actions", "observed": kind}));
                        } else if !kinds.contains(&kind.as_str()) {
                            bad.push(json!({"class": "wide:kind", "what": "error names a rule the padded tree does not violate", "observed": kind, "rules": rules}));
                        }
                    }
                }
            }
        }
        // STRETCH: the same tree with the first (or last) weight of every chance node multiplied by 2^70. Which weight
        // vectors are proportional, positive, finite and of equal length is unchanged (one coordinate of every vector is
        // multiplied by the same power of two), so the verdict must be the one TLC computed; the other outcomes now have
        // probabilities near 1e-21, below any absolute tolerance
        if (n % 5 == 2 || rules.iter().any(|r| r == "R3")) && integer_weights(&tree) {
            let st = stretch(&tree, n % 2 == 0);
            let res = util::catch(move || tree::build(&st).map(|_| ()).map_err(|e| format!("{e:?}")));
            match res {
                Err(msg) => bad.push(json!({"class": "stretch", "what": "from_root panicked on the tree with one weight of every chance node multiplied by 2^70", "observed": msg})),
                Ok(Ok(())) => {
                    // (R3s and R8 acceptances are the listed known findings of the plain replay: not repeated here)
                    if !rules.is_empty() && !rules.iter().all(|r| r == "R3s" || r == "R8") {
                        bad.push(json!({"class": format!("stretch:accepts:{}", rules_sorted.join("+")), "what": "accepted a tree outside the documented class once one weight of every chance node was multiplied by 2^70", "rules": rules}));
                    }
                }
                Ok(Err(kind)) => {
                    if rules.is_empty() {
                        bad.push(json!({"class": "stretch:rejects", "what": "rejected a tree of the documented class once one weight of every chance node was multiplied by 2^70", "observed": kind}));
                    } else if !kinds.contains(&kind.as_str()) {
                        bad.push(json!({"class": "stretch:kind", "what": "error names a rule the stretched tree does not violate", "observed": kind, "rules": rules}));
                    }
                }
            }
        }
        if !bad.is_empty() {
            out.line(&json!({"id": n, "status": "violation", "mismatch": bad}));
        } else if dev {
            out.line(&json!({"id": n, "status": "deviation"}));
        } else {
            out.line(&json!({"id": n, "status": "ok", "nontrivial": true}));
        }
    }
}
