//! C10: the categorical sampler against the table of MC_Sampler.tla (spec -> impl) and traces of
//! solves with LIVE randomness (hooks in observer mode) for Trace_Sample.tla (impl -> spec).
use crate::cfr::{self, verif, METHODS};
use crate::par;
use crate::rng::Rng;
use crate::tree::{self, CKid, GenCfg, Num, PKid, Tree};
use crate::util::{self, Args, Out};
use crate::zoo;
use cfr::verif::{Dump, DumpNode, Event, InfoState, Site};
use serde_json::{json, Value};

/// replay every (weights, variate) of the specification's table into the production sampler
pub fn replay_sampler(args: &Args) {
    let exps = util::read_ndjson(args.get("exp"));
    let mut out = Out::create(args.get("out"));
    for e in exps.iter() {
        let id = e["id"].as_i64().unwrap();
        let c = &e["exp"];
        let w: Vec<f64> = c["w"].as_array().unwrap().iter().map(|x| x.as_i64().unwrap() as f64).collect();
        let total = c["total"].as_i64().unwrap() as f64;
        let probs: Vec<f64> = w.iter().map(|x| x / total).collect();
        let u = c["j"].as_i64().unwrap() as f64 / (2.0 * total);
        let interior = c["interior"].as_bool().unwrap();
        let dyadic = c["dyadic"].as_bool().unwrap();
        let exp = c["exp"].as_u64().unwrap() as usize;
        let set: Vec<usize> = c["set"].as_array().unwrap().iter().map(|x| x.as_u64().unwrap() as usize).collect();
        let p2 = probs.clone();
        match util::catch(move || verif::multinomial_sample(&p2, u)) {
            Err(msg) => out.line(&json!({"id": id, "status": "violation", "mismatch": [{"class": "panic", "what": "the sampler panicked", "observed": msg}]})),
            Ok(ix) => {
                let got = ix + 1;
                if interior {
                    if got == exp {
                        out.line(&json!({"id": id, "status": "ok", "nontrivial": probs.len() >= 2}));
                    } else {
                        out.line(&json!({"id": id, "status": "violation", "mismatch": [{"class": "interval",
                            "what": "the sampler does not return the index whose cumulative-probability interval contains the variate",
                            "weights": c["w"], "variate": u, "observed": got, "specified": exp}]}));
                    }
                } else if dyadic {
                    // endpoints are exact in floating point here; either adjacent interval is admissible
                    if set.contains(&got) {
                        out.line(&json!({"id": id, "status": "ok", "nontrivial": false}));
                    } else {
                        out.line(&json!({"id": id, "status": "violation", "mismatch": [{"class": "endpoint",
                            "what": "at an interval endpoint the sampler returns an index that is not adjacent to it",
                            "weights": c["w"], "variate": u, "observed": got, "specified": set}]}));
                    }
                } else {
                    out.line(&json!({"id": id, "status": "endpoint-skipped"}));
                }
            }
        }
    }
}

fn flat_game(dump: &Dump<String, String>, t: &Tree, meth: &str, k: usize) -> Value {
    let (mut kids, mut kind, mut pl, mut info) = (Vec::new(), Vec::new(), Vec::new(), Vec::new());
    for node in dump.nodes.iter() {
        match node {
            DumpNode::Terminal(_) => {
                kids.push(Vec::<usize>::new());
                kind.push("T");
                pl.push(0);
                info.push(0);
            }
            DumpNode::Chance(ci, ks) => {
                kids.push(ks.iter().map(|x| x + 1).collect());
                kind.push("C");
                pl.push(0);
                info.push(ci + 1);
            }
            DumpNode::Player(p, i, ks) => {
                kids.push(ks.iter().map(|x| x + 1).collect());
                kind.push("P");
                pl.push(p + 1);
                info.push(i + 1);
            }
        }
    }
    // the DECLARED integer weights of every chance infoset, taken from the raw tree
    let ix = cfr::align(t, dump);
    let mut cw: Vec<Vec<i64>> = vec![Vec::new(); dump.chance.len()];
    fn weights(t: &Tree, ix: &std::collections::HashMap<String, usize>, cw: &mut Vec<Vec<i64>>) {
        match t {
            Tree::T { .. } => {}
            Tree::C { ci, kids } => {
                if kids.len() >= 2 {
                    if let Some(i) = ix.get(ci) {
                        if cw[*i].is_empty() {
                            cw[*i] = kids.iter().map(|k| k.w.f() as i64).collect();
                        }
                    }
                }
                kids.iter().for_each(|k| weights(&k.t, ix, cw));
            }
            Tree::P { kids, .. } => kids.iter().for_each(|k| weights(&k.t, ix, cw)),
        }
    }
    weights(t, &ix, &mut cw);
    let nacts: Vec<Vec<usize>> = (0..2).map(|p| dump.infos[p].iter().map(|i| i.actions.len()).collect()).collect();
    json!({"e": "game", "method": meth, "k": k, "target": 3 * k, "nodes": dump.nodes.len(), "kids": kids, "kind": kind,
        "pl": pl, "info": info, "cw": cw, "nacts": nacts, "decl": cfr::declared(t, dump)})
}

/// probabilities as exact rationals [n, d] where a small denominator reproduces the float, else as
/// micro-units [round(x * 1e6), 1000000]
fn rats(v: &[f64]) -> Value {
    // one encoding per vector: all exact, or all in micro-units
    let all_exact = exact(v);
    Value::Array(
        v.iter()
            .map(|x| match util::reconstruct(*x, 30000) {
                Some((n, d)) if all_exact => json!([n, d]),
                _ => json!([(x * 1e6).round() as i64, 1000000]),
            })
            .collect(),
    )
}

fn exact(v: &[f64]) -> bool {
    v.iter().all(|x| util::reconstruct(*x, 30000).is_some())
}

fn site_name(s: Site) -> &'static str {
    match s {
        Site::Chance => "C",
        Site::One => "P1",
        Site::Two => "P2",
    }
}

/// one solve with live randomness, every draw observed; `inject` = (state, first iteration)
fn observed(t: &Tree, meth: &str, preset: &str, k: usize, iters: u64, inject: Option<(&verif::State, u64)>, with_game: bool) -> Result<Vec<Value>, String> {
    let t2 = t.clone();
    let (meth, preset) = (meth.to_string(), preset.to_string());
    let inject = inject.map(|(s, f)| (s.clone(), f));
    util::catch(move || {
        // the library sees the chance nodes WITHOUT the labels the harness invented for its own book-keeping
        let game = tree::build(&cfr::unlabelled(&t2)).map_err(|e| format!("{e:?}"))?;
        let dump = game.verif_dump();
        verif::reset();
        verif::set_record(true, true);
        let mut last = iters;
        if let Some((state, first)) = inject.as_ref() {
            verif::set_inject(Some(state.clone()));
            verif::set_first_it(*first);
            last = first + iters - 1;
        }
        let res = game.solve(cfr::method(&meth), last, 0.0, k, Some(cfr::params(&cfr::preset(&preset))));
        let log = verif::take_log();
        let fin = verif::take_extract();
        verif::reset();
        res.map_err(|e| format!("{e:?}"))?;
        let mut events = Vec::new();
        if with_game {
            events.push(flat_game(&dump, &t2, &meth, k));
        }
        let external = meth == "External";
        let mut passes = Vec::new();
        let (mut draws, mut entered, mut hits, mut tasks, mut locks): (Vec<Value>, Vec<usize>, Vec<usize>, Vec<usize>, Vec<bool>) =
            (Vec::new(), Vec::new(), Vec::new(), Vec::new(), Vec::new());
        let (mut queue, mut work): (Vec<usize>, Vec<usize>) = (Vec::new(), Vec::new());
        let mut overridden = false;
        macro_rules! flush {
            ($q:expr) => {{
                entered.sort();
                hits.sort();
                tasks.sort();
                passes.push(json!({"e": "pass", "q": $q, "draws": draws, "queue": queue, "work": work, "entered": entered,
                    "hits": hits, "tasks": tasks, "locks": locks}));
                draws = Vec::new();
                entered.clear();
                hits.clear();
                tasks.clear();
                locks.clear();
                queue.clear();
                work.clear();
            }};
        }
        for ev in log.iter() {
            match ev {
                Event::Draw(site, i, pass, w, ix, ov) => {
                    overridden |= *ov;
                    draws.push(json!({"site": site_name(*site), "info": i + 1, "ix": ix + 1, "pass": pass, "w": rats(w), "exact": exact(w),
                        // is the weight of the drawn outcome positive (in the floating-point numbers presented to the sampler)?
                        "pos": if w.get(*ix).map_or(false, |x| *x > 0.0) { 1 } else { 0 }}))
                }
                Event::Frontier(q, w) => {
                    queue = q.iter().map(|x| x + 1).collect();
                    work = w.iter().map(|x| x + 1).collect();
                }
                Event::Task(nid) => tasks.push(nid + 1),
                Event::Visit(nid, cached, _) => {
                    if *cached {
                        hits.push(nid + 1)
                    } else {
                        entered.push(nid + 1)
                    }
                }
                Event::Lock(_, _, ok) => locks.push(*ok),
                Event::PassEnd(_, p) => {
                    if external {
                        flush!(p + 1);
                    } else if k >= 2 {
                        flush!(0);
                    }
                }
                Event::IterEnd(..) => {
                    if !external && k == 1 {
                        flush!(0);
                    }
                }
                _ => {}
            }
        }
        if overridden {
            return Err("a draw was overridden although no override was installed".to_string());
        }
        let cur = |s: &verif::State| -> Value {
            Value::Array((0..2).map(|p| Value::Array(s[p].iter().map(|i| rats(&i.strat)).collect())).collect())
        };
        let mut begin = json!({"e": "begin", "inj": inject.is_some(), "passes": passes.len()});
        if let Some((state, _)) = inject.as_ref() {
            begin["cur"] = cur(state);
        }
        if let Some(f) = fin.as_ref() {
            begin["final"] = cur(f);
        }
        events.push(begin);
        events.extend(passes);
        Ok(events)
    })
    .and_then(|r| r)
}

fn term0() -> Tree {
    Tree::T { pay: Num::I(0) }
}

/// flat-payoff game for the frequency runs: chance d -> player one x -> chance d2 (same weights as d, another infoset)
/// -> player two y -> player two y2 (one infoset per own earlier action) -> chance e.  In one pass two chance infosets of
/// equal weights and two infosets of the sampled player are drawn: independence across infosets is observable
fn freq_game(dw: &[i64], ew: &[i64], na: usize) -> Tree {
    if na >= 8 {
        // WIDTH: chance d -> player one x -> player two y -> end (the layers below would make 4000 nodes)
        let y = || Tree::P { pl: 2, info: "y".into(), kids: (0..na).map(|j| PKid { a: format!("b{j}"), t: term0() }).collect() };
        let x = || Tree::P { pl: 1, info: "x".into(), kids: (0..na).map(|j| PKid { a: format!("a{j}"), t: y() }).collect() };
        return Tree::C { ci: "d".into(), kids: dw.iter().map(|w| CKid { w: Num::I(*w), t: x() }).collect() };
    }
    // (the third distribution sits below the first action of y2 only: the tree stays small)
    let e = || Tree::C { ci: "e".into(), kids: ew.iter().map(|w| CKid { w: Num::I(*w), t: term0() }).collect() };
    let y2 = |b: usize| Tree::P { pl: 2, info: format!("y2b{b}"), kids: (0..na).map(|j| PKid { a: format!("c{j}"), t: if j == 0 && b == 0 { e() } else { term0() } }).collect() };
    let y = || Tree::P { pl: 2, info: "y".into(), kids: (0..na).map(|j| PKid { a: format!("b{j}"), t: y2(j) }).collect() };
    let d2 = || Tree::C { ci: "d2".into(), kids: dw.iter().map(|w| CKid { w: Num::I(*w), t: y() }).collect() };
    let x = || Tree::P { pl: 1, info: "x".into(), kids: (0..na).map(|j| PKid { a: format!("a{j}"), t: d2() }).collect() };
    Tree::C { ci: "d".into(), kids: dw.iter().map(|w| CKid { w: Num::I(*w), t: x() }).collect() }
}

pub fn record(args: &Args) {
    let seed = args.num("seed", 1);
    let n = args.num("n", 10);
    let thorough = args.get_or("thorough", "0") == "1";
    let mut out = Out::create(args.get("out"));
    let mut failed: Vec<Value> = Vec::new();
    let mut runs = 0usize;
    let mut passes = 0usize;
    // ---- structural runs: every method, 1 and several threads, live randomness
    let mut games: Vec<(String, Tree)> = zoo::all()
        .into_iter()
        .filter(|(name, _)| ["kuhn", "shared8", "rare", "lonely", "pennies", "coins"].contains(&name.as_str()))
        .collect();
    // WIDTH: 300 actions / 300 chance outcomes (long weight vectors, indices beyond u8)
    games.push(("wide300".to_string(), zoo::wide()));
    let mut rng = Rng::new(seed ^ 0xc10);
    for id in 0..n {
        let mut r = rng.fork();
        if id % 3 == 0 {
            let word = par::random_word(&mut r, [13, 21, 35][(id / 3 % 3) as usize]);
            if word.len() >= 3 {
                games.push((format!("shape{id}"), par::shape_game(&word, &mut r, true)));
            }
        } else {
            let cfg = GenCfg { max_depth: 3 + (id % 3) as usize, max_nodes: 50, max_infos: 8, max_pure: 100000, chance_repeat: false, ..GenCfg::default() };
            let mut t = tree::gen_tree(&mut r, &cfg);
            tree::shorten(&mut t);
            games.push((format!("rand{id}"), t));
        }
    }
    for (_, t) in games.iter_mut() {
        cfr::label_chance(t);
    }
    let ks: &[usize] = if thorough { &[1, 2, 3, 8] } else { &[1, 3] };
    let iters = if thorough { 6 } else { 3 };
    for (gi, (name, t)) in games.iter().enumerate() {
        for (mi, meth) in METHODS.iter().enumerate() {
            for &k in ks {
                let preset = cfr::PRESETS[(gi + mi) % 5];
                match observed(t, meth, preset, k, iters, None, true) {
                    Ok(evs) => {
                        runs += 1;
                        passes += evs.len() - 2;
                        evs.iter().for_each(|e| out.line(e));
                    }
                    Err(msg) => failed.push(json!({"game": name, "method": meth, "k": k, "error": msg})),
                }
            }
        }
    }
    // ---- the unsampled method makes no random draws: the same call twice returns bitwise the same profile and bounds, also
    // on games full of exact ties (all payoffs equal, symmetric games) where a tie-break by lot would show
    for (name, t) in zoo::all().into_iter().filter(|(n, _)| ["flat", "pennies", "rps", "lonely", "coins", "kuhn"].contains(&n.as_str())) {
        for preset in cfr::PRESETS {
            let run = |t: &Tree| -> Result<([Vec<f64>; 2], [u64; 2]), String> {
                let t2 = t.clone();
                util::catch(move || {
                    let game = tree::build(&t2).map_err(|e| format!("{e:?}"))?;
                    verif::reset();
                    let (s, b) = game.solve(cfr::method("Full"), 7, 0.0, 1, Some(cfr::params(&cfr::preset(preset)))).map_err(|e| format!("{e:?}"))?;
                    Ok((s.verif_dense(), [b.player_regret_bound(cfr::PlayerNum::One).to_bits(), b.player_regret_bound(cfr::PlayerNum::Two).to_bits()]))
                })
                .and_then(|r| r)
            };
            match (run(&t), run(&t)) {
                (Ok(a), Ok(b)) => {
                    let same = a.1 == b.1 && a.0.iter().zip(b.0.iter()).all(|(x, y)| x.len() == y.len() && x.iter().zip(y.iter()).all(|(p, q)| p.to_bits() == q.to_bits()));
                    out.line(&json!({"e": "repeat", "game": name, "preset": preset, "same": same}));
                    runs += 2;
                }
                (x, y) => failed.push(json!({"game": name, "method": "Full", "error": format!("{:?} {:?}", x.err(), y.err())})),
            }
        }
    }
    out.line(&json!({"e": "freq"}));
    // ---- frequency runs: flat payoffs, injected skewed strategies, one iteration per solve
    let reps = if thorough { 1000 } else { 1000 };
    let dists: &[(&[i64], &[i64], &[f64])] = &[
        (&[1, 3], &[2, 3, 5], &[0.7, 0.2, 0.1]),
        (&[3, 1, 4], &[1, 1], &[0.25, 0.75]),
        (&[1, 9], &[5, 3, 1, 1], &[0.1, 0.1, 0.2, 0.6]),
        // WIDTH: ten actions (a sampler may treat long weight vectors differently)
        (&[1, 1], &[1, 2], &[0.3, 0.2, 0.1, 0.1, 0.05, 0.05, 0.05, 0.05, 0.05, 0.05]),
    ];
    let nd = if thorough { 4 } else { 2 };
    for (di, (dw, ew, p)) in dists.iter().take(nd).enumerate() {
        let t = freq_game(dw, ew, p.len());
        // player one: regrets proportional to p (flat payoffs leave them untouched), so its strategy
        // after the advance of the first half-iteration is p; player two: current strategy p
        let skew: Vec<f64> = p.iter().map(|x| x * 10.0).collect();
        // (player two owns y and one y2 infoset per action of y: all play p)
        let state: verif::State = [
            vec![InfoState { cum_regret: skew.clone(), cum_strat: vec![0.0; p.len()], strat: vec![1.0 / p.len() as f64; p.len()] }],
            (0..if p.len() >= 8 { 1 } else { p.len() + 1 }).map(|_| InfoState { cum_regret: vec![0.0; p.len()], cum_strat: vec![0.0; p.len()], strat: p.to_vec() }).collect(),
        ];
        for meth in ["External", "Sampled"] {
            for rep in 0..reps {
                let inject = if meth == "External" { Some((&state, 3 + di as u64)) } else { None };
                // Sampled: many iterations in one solve; External: one iteration per solve from the injected state
                let (iters, stop) = if meth == "Sampled" { (reps as u64, true) } else { (1, false) };
                match observed(&t, meth, "vanilla", 1, iters, inject, rep == 0) {
                    Ok(evs) => {
                        runs += 1;
                        passes += evs.len() - 1;
                        evs.iter().for_each(|e| out.line(e));
                    }
                    Err(msg) => failed.push(json!({"game": format!("freq{di}"), "method": meth, "error": msg})),
                }
                if stop {
                    break;
                }
            }
            out.line(&json!({"e": "freq"}));
        }
    }
    println!("{}", json!({"runs": runs, "passes": passes, "games": games.len(), "failed": failed}));
}
